"""Label-preserving hypergraph isomorphism by backtracking (small inputs), and hyperedge
replacement on plain data.  A hypergraph is dict(nodes=[label,...], edges=[(label, (node,...)),...],
ext=(node,...)); labels are hashable."""
from collections import Counter


def from_graph(g, label_of=lambda l: (l.name, l.is_terminal, tuple(x.name for x in l.type))):
    """fggs Graph -> plain hypergraph (nodes numbered in iteration order)"""
    nodes = list(g.nodes())
    idx = {n: i for i, n in enumerate(nodes)}
    return dict(nodes=[n.label.name for n in nodes],
                edges=[(label_of(e.label), tuple(idx[n] for n in e.nodes)) for e in g.edges()],
                ext=tuple(idx[n] for n in g.ext))


def from_spec_rule(spec, r):
    def lab(name):
        term = name in spec['terminals']
        typ = spec['terminals'][name] if term else spec['nonterminals'][name]
        return (name, term, tuple(typ))
    return dict(nodes=list(r['nodes']), edges=[(lab(l), tuple(att)) for l, att in r['edges']], ext=tuple(r['ext']))


def isomorphic(a, b):
    """True iff there is a bijection of nodes preserving node labels, the external tuple, and the
    multiset of (edge label, attachment tuple)."""
    if len(a['nodes']) != len(b['nodes']) or len(a['edges']) != len(b['edges']) or len(a['ext']) != len(b['ext']):
        return False
    if Counter(a['nodes']) != Counter(b['nodes']):
        return False
    if Counter(l for l, _ in a['edges']) != Counter(l for l, _ in b['edges']):
        return False
    n = len(a['nodes'])
    m = {}
    used = set()
    for x, y in zip(a['ext'], b['ext']):
        if x in m:
            if m[x] != y:
                return False
            continue
        if y in used or a['nodes'][x] != b['nodes'][y]:
            return False
        m[x] = y
        used.add(y)
    bedges = Counter(b['edges'])
    # incidence signature to prune
    def sig(h, v):
        return (h['nodes'][v], tuple(sorted((l, tuple(i for i, u in enumerate(att) if u == v)) for l, att in h['edges'] if v in att)))
    siga = [sig(a, v) for v in range(n)]
    sigb = [sig(b, v) for v in range(n)]
    if Counter(siga) != Counter(sigb):
        return False
    order = [v for v in range(n) if v not in m]

    def consistent():
        # every edge of a whose nodes are all mapped must exist in b (with multiplicity)
        c = Counter()
        for l, att in a['edges']:
            if all(u in m for u in att):
                c[(l, tuple(m[u] for u in att))] += 1
        return all(bedges[k] >= v for k, v in c.items())

    def rec(i):
        if i == len(order):
            c = Counter((l, tuple(m[u] for u in att)) for l, att in a['edges'])
            return c == bedges
        v = order[i]
        for y in range(n):
            if y in used or sigb[y] != siga[v]:
                continue
            m[v] = y
            used.add(y)
            if consistent() and rec(i + 1):
                return True
            del m[v]
            used.discard(y)
        return False
    if not consistent():
        return False
    return rec(0)


def replace(host, ei, repl):
    """hyperedge replacement on plain data: edge number ei of host replaced by repl (ext identified
    with the attachment nodes in order)."""
    lab, att = host['edges'][ei]
    if len(att) != len(repl['ext']):
        raise ValueError('arity mismatch in replacement')
    nodes = list(host['nodes'])
    m = {}
    for x, v in zip(repl['ext'], att):
        if x in m and m[x] != v:
            raise ValueError('repeated external node attached to different nodes')
        m[x] = v
        if repl['nodes'][x] != host['nodes'][v]:
            raise ValueError('label mismatch in replacement')
    for x in range(len(repl['nodes'])):
        if x not in m:
            nodes.append(repl['nodes'][x])
            m[x] = len(nodes) - 1
    edges = [e for i, e in enumerate(host['edges']) if i != ei]
    edges += [(l, tuple(m[u] for u in a)) for l, a in repl['edges']]
    return dict(nodes=nodes, edges=edges, ext=host['ext'])


def selftest():
    a = dict(nodes=['A', 'B', 'A'], edges=[('f', (0, 1)), ('g', (1, 2))], ext=(0,))
    b = dict(nodes=['A', 'A', 'B'], edges=[('g', (2, 0)), ('f', (1, 2))], ext=(1,))
    c = dict(nodes=['A', 'A', 'B'], edges=[('g', (2, 0)), ('f', (1, 2))], ext=(0,))
    d = dict(nodes=['A', 'A', 'B'], edges=[('g', (0, 2)), ('f', (1, 2))], ext=(1,))
    ok = isomorphic(a, b) and not isomorphic(a, c) and not isomorphic(a, d)
    host = dict(nodes=['A', 'B'], edges=[('X', (0, 1))], ext=())
    repl = dict(nodes=['A', 'B', 'C'], edges=[('f', (0, 2)), ('g', (2, 1))], ext=(0, 1))
    r = replace(host, 0, repl)
    ok &= isomorphic(r, dict(nodes=['A', 'B', 'C'], edges=[('f', (0, 2)), ('g', (2, 1))], ext=()))
    return ok
