"""Least solution of x = A x + b over the four semirings, from the definition x = sum_n A^n b.

Real/Log: the support digraph and the spectral radius of each of its strongly connected components
classify where the series diverges (entries that reach a component with rho >= 1 which in turn
reaches a positive entry of b are +inf); the rest is obtained by Kleene iteration from zero.
Viterbi: longest-path relaxation (non-positive cycles), +inf where a positive cycle feeds a
finite entry.  Bool: reachability."""
import math
import numpy as np

INF = math.inf


def _sccs(adj, n):
    reach = [[False] * n for _ in range(n)]
    for i in range(n):
        for j in range(n):
            reach[i][j] = adj[i][j]
    for k in range(n):
        for i in range(n):
            if reach[i][k]:
                for j in range(n):
                    if reach[k][j]:
                        reach[i][j] = True
    comps, seen = [], set()
    for i in range(n):
        if i in seen:
            continue
        c = [j for j in range(n) if j == i or (reach[i][j] and reach[j][i])]
        seen.update(c)
        comps.append(c)
    return comps, reach


def solve_real(A, B, exact_one_ok=True):
    """A: (n,n) numpy float64 with entries in [0,inf]; B: (n,m).  Returns (X, info) or (None, reason)."""
    n = A.shape[0]
    m = B.shape[1]
    adj = [[A[i, j] > 0 for j in range(n)] for i in range(n)]
    comps, reach = _sccs(adj, n)
    div = set()
    for c in comps:
        sub = A[np.ix_(c, c)]
        if len(c) == 1 and not adj[c[0]][c[0]]:
            continue
        if np.isinf(sub).any():
            div.update(c)
            continue
        rho = float(np.max(np.abs(np.linalg.eigvals(sub))))
        rows = sub.sum(axis=1)
        if np.all(rows == 1.0) or np.all(sub.sum(axis=0) == 1.0):
            div.update(c)            # (sub)stochastic with all row/column sums exactly one: rho = 1
        elif rho < 0.95:
            pass
        elif rho > 1.05:
            div.update(c)
        else:
            return None, f'spectral radius {rho} too close to 1'
    X = np.zeros((n, m))
    for col in range(m):
        b = B[:, col]
        pos = [k for k in range(n) if b[k] > 0]
        # value of x_k is positive iff k reaches (reflexively) some positive b
        positive = [any(k == p or reach[k][p] for p in pos) for k in range(n)]
        inf = [False] * n
        for i in range(n):
            # i -> ... -> c in div -> ... -> positive   (c may be i itself)
            for c in div:
                if (i == c or reach[i][c]) and positive[c]:
                    inf[i] = True
                    break
            if not inf[i]:
                # infinite entry of A or b on a path carrying mass
                if b[i] == INF:
                    inf[i] = True
        changed = True
        while changed:
            changed = False
            for i in range(n):
                if inf[i]:
                    continue
                for j in range(n):
                    if A[i, j] > 0 and (inf[j] or (A[i, j] == INF and positive[j])):
                        inf[i] = True
                        changed = True
                        break
        fin = [i for i in range(n) if not inf[i]]
        x = np.zeros(n)
        if fin:
            Af = A[np.ix_(fin, fin)].copy()
            Af[~np.isfinite(Af)] = 0.0          # an infinite coefficient towards a zero entry contributes 0
            bf = b[fin]
            y = np.zeros(len(fin))
            ok = False
            for it in range(20000):
                y2 = Af @ y + bf
                if np.max(np.abs(y2 - y)) <= 1e-15 * (1 + np.max(np.abs(y2))):
                    y = y2
                    ok = True
                    break
                y = y2
            if not ok:
                return None, 'kleene did not converge on the finite part'
            x[fin] = y
        for i in range(n):
            if inf[i]:
                x[i] = INF
        X[:, col] = x
    return X, dict(divergent=sorted(div))


def solve_maxplus(A, B):
    """A entries in [-inf, inf), B entries in [-inf, inf]: x_i = max over paths.  Returns (X, info) or (None, reason)"""
    n, m = A.shape[0], B.shape[1]
    X = np.full((n, m), -INF)

    def add(a, b):
        return -INF if (a == -INF or b == -INF) else a + b
    for col in range(m):
        x = [B[i, col] for i in range(n)]
        for it in range(n + 1):
            y = list(x)
            for i in range(n):
                for j in range(n):
                    v = add(A[i, j], x[j])
                    if v > y[i]:
                        y[i] = v
            if y == x:
                break
            x = y
        else:
            # still improving after n rounds: a positive cycle feeds these entries -> +inf
            improving = {i for i in range(n) if any(add(A[i, j], x[j]) > x[i] for j in range(n))}
            changed = True
            while changed:
                changed = False
                for i in range(n):
                    if i not in improving and any(A[i, j] > -INF and j in improving for j in range(n)):
                        improving.add(i)
                        changed = True
            for i in improving:
                x[i] = INF
            # re-relax the others a few times
            for it in range(n + 1):
                for i in range(n):
                    if x[i] != INF:
                        for j in range(n):
                            v = add(A[i, j], x[j])
                            if v > x[i]:
                                x[i] = v
        X[:, col] = x
    return X, {}


def solve_bool(A, B):
    n, m = A.shape[0], B.shape[1]
    adj = [[bool(A[i, j]) for j in range(n)] for i in range(n)]
    _, reach = _sccs(adj, n)
    X = np.zeros((n, m), dtype=bool)
    for col in range(m):
        for i in range(n):
            X[i, col] = bool(B[i, col]) or any(reach[i][k] and bool(B[k, col]) for k in range(n))
    return X, {}


def solve(A, B, semiring):
    """A (n,n), B (n,m) numpy arrays in the carrier of `semiring`"""
    if semiring == 'real':
        return solve_real(A.astype(float), B.astype(float))
    if semiring == 'log':
        with np.errstate(over='ignore'):
            X, info = solve_real(np.exp(A.astype(float)), np.exp(B.astype(float)))
        if X is None:
            return None, info
        with np.errstate(divide='ignore'):
            return np.log(X), info
    if semiring == 'viterbi':
        return solve_maxplus(A.astype(float), B.astype(float))
    return solve_bool(A, B)


def selftest():
    A = np.array([[0.5, 0.0], [0.25, 0.0]])
    b = np.array([[1.0], [0.0]])
    X, _ = solve(A, b, 'real')
    ok = abs(X[0, 0] - 2.0) < 1e-12 and abs(X[1, 0] - 0.5) < 1e-12
    A = np.array([[1.0, 0.0], [0.5, 0.0]])
    X, _ = solve(A, b, 'real')
    ok &= X[0, 0] == INF and X[1, 0] == INF
    X, _ = solve(A, np.array([[0.0], [1.0]]), 'real')
    ok &= X[0, 0] == 0.0 and X[1, 0] == 1.0
    A = np.array([[0.0, -1.0], [-2.0, -INF]])
    X, _ = solve(A, np.array([[-INF], [0.0]]), 'viterbi')
    ok &= X[0, 0] == -1.0 and X[1, 0] == 0.0
    X, _ = solve(np.array([[0, 1], [0, 0]], dtype=bool), np.array([[False], [True]]), 'bool')
    ok &= bool(X[0, 0]) and bool(X[1, 0])
    return bool(ok)
