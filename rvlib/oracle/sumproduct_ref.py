"""Reference sum-product, written from the definition; shares no code with fggs.

 * exact_tables(spec, semiring): brute-force enumeration of all assignments of every rule, in
   exact arithmetic (Fractions / booleans), nonterminals in dependency order.  Non-recursive
   specs only.
 * Dense(spec, semiring): dense float64 torch evaluator of the rule equations
   (broadcast-multiply of the factor tables over the full node space, then sum/max out the
   non-external nodes), used for Kleene iteration on recursive specs and, through autograd on
   the unrolled iteration, for reference gradients.
"""
import itertools, math
from fractions import Fraction

from ..gen import fggspec as G

INF = math.inf


# ------------------------------------------------------------------------------ exact algebras

class RealExact:
    name = 'real'
    zero = Fraction(0)
    one = Fraction(1)

    @staticmethod
    def conv(x):
        if x == INF:
            return INF
        return Fraction(x)

    @staticmethod
    def add(a, b):
        if a == INF or b == INF:
            return INF
        return a + b

    @staticmethod
    def mul(a, b):
        if a == 0 or b == 0:
            return Fraction(0)
        if a == INF or b == INF:
            return INF
        return a * b

    @staticmethod
    def from_int(n):
        return Fraction(n)

    @staticmethod
    def to_float(a):
        if a == INF:
            return INF
        try:
            return float(a)
        except OverflowError:
            return INF


class MaxPlusExact:
    name = 'viterbi'
    zero = -INF
    one = Fraction(0)

    @staticmethod
    def conv(x):
        if x == INF or x == -INF:
            return x
        return Fraction(x)

    @staticmethod
    def add(a, b):
        return a if a >= b else b

    @staticmethod
    def mul(a, b):
        if a == -INF or b == -INF:
            return -INF
        if a == INF or b == INF:
            return INF
        return a + b

    @staticmethod
    def from_int(n):
        return Fraction(0) if n > 0 else -INF

    @staticmethod
    def to_float(a):
        return float(a)


class BoolExact:
    name = 'bool'
    zero = False
    one = True
    conv = staticmethod(bool)
    add = staticmethod(lambda a, b: a or b)
    mul = staticmethod(lambda a, b: a and b)
    from_int = staticmethod(lambda n: n > 0)
    to_float = staticmethod(bool)


def log_fraction(a):
    if a == INF:
        return INF
    if a == 0:
        return -INF
    return math.log(a.numerator) - math.log(a.denominator)


def topo_order(spec):
    """nonterminals, dependencies first (spec must be non-recursive)"""
    g = G.nt_graph(spec)
    done, order = set(), []

    def visit(u, stack=()):
        if u in done:
            return
        if u in stack:
            raise ValueError('recursive')
        for v in g[u]:
            visit(v, stack + (u,))
        done.add(u)
        order.append(u)
    for u in g:
        visit(u)
    return order


def enum_rule(spec, rule, tables, alg):
    sizes = [spec['domains'][l] for l in rule['nodes']]
    out = {}
    for asst in itertools.product(*[range(s) for s in sizes]):
        val = alg.one
        for lab, att in rule['edges']:
            idx = tuple(asst[v] for v in att)
            val = alg.mul(val, tables[lab].get(idx, alg.zero))
            if val == alg.zero:
                break
        key = tuple(asst[v] for v in rule['ext'])
        if key in out:
            out[key] = alg.add(out[key], val)
        else:
            out[key] = val
    return out


def exact_tables(spec, semiring):
    """dict nonterminal -> {ext assignment: float/bool value}; exact up to the final conversion"""
    alg = {'real': RealExact, 'log': RealExact, 'viterbi': MaxPlusExact, 'bool': BoolExact}[semiring]
    carrier = 'real' if semiring == 'log' else semiring
    tables = {}
    for t, typ in spec['terminals'].items():
        w = G.weights_in(spec, t, carrier)
        shape = G.shape_of(spec, typ)
        tables[t] = {idx: alg.conv(G.get_nested(w, idx)) for idx in itertools.product(*[range(s) for s in shape])}
    for n in topo_order(spec):
        shape = G.shape_of(spec, spec['nonterminals'][n])
        tab = {idx: alg.zero for idx in itertools.product(*[range(s) for s in shape])}
        for r in spec['rules']:
            if r['lhs'] != n:
                continue
            for k, v in enum_rule(spec, r, tables, alg).items():
                tab[k] = alg.add(tab[k], v)
        tables[n] = tab
    out = {}
    for n in spec['nonterminals']:
        if semiring == 'log':
            out[n] = {k: log_fraction(v) for k, v in tables[n].items()}
        else:
            out[n] = {k: alg.to_float(v) for k, v in tables[n].items()}
    return out


def table_to_nested(spec, n, tab):
    shape = G.shape_of(spec, spec['nonterminals'][n])

    def rec(prefix, k):
        if k == len(shape):
            return tab[tuple(prefix)]
        return [rec(prefix + [i], k + 1) for i in range(shape[k])]
    return rec([], 0)


# ------------------------------------------------------------------------------ dense evaluator

class Dense:
    """Dense float64 evaluator.  semiring in {'real','viterbi'}; 'log' is log(real(exp w)) and
    'bool' is real(w>0)>0, both obtained by the caller."""

    def __init__(self, spec, semiring, weights=None):
        import torch
        self.torch = torch
        self.spec = spec
        self.semiring = semiring
        assert semiring in ('real', 'viterbi')
        if weights is None:
            weights = {t: torch.tensor(G.weights_in(spec, t, semiring), dtype=torch.float64)
                       for t in spec['terminals']}
        self.w = weights
        self.nts = list(spec['nonterminals'])
        self.zero = 0.0 if semiring == 'real' else -INF

    def zeros(self):
        torch = self.torch
        return {n: torch.full(G.shape_of(self.spec, typ), self.zero, dtype=torch.float64)
                for n, typ in self.spec['nonterminals'].items()}

    def rule_value(self, rule, x):
        torch = self.torch
        spec = self.spec
        sizes = [spec['domains'][l] for l in rule['nodes']]
        nn = len(sizes)
        ar = []
        for v, s in enumerate(sizes):
            shape = [1] * nn
            shape[v] = s
            ar.append(torch.arange(s).view(shape))
        if self.semiring == 'real':
            full = torch.ones(sizes, dtype=torch.float64)
            zmask = torch.zeros(sizes, dtype=torch.bool)
        else:
            full = torch.zeros(sizes, dtype=torch.float64)
            zmask = torch.zeros(sizes, dtype=torch.bool)
        for lab, att in rule['edges']:
            W = self.w[lab] if lab in self.w else x[lab]
            if att:
                Wb = W[tuple(ar[v] for v in att)]
                # advanced indexing drops the broadcast singleton layout only if all index
                # tensors broadcast together: they do, to a shape with 1s on unused nodes
            else:
                Wb = W
            full = full * Wb if self.semiring == 'real' else full + Wb
        # 0 x inf = 0 (real) / -inf + inf = -inf (max-plus): the only way a NaN can arise here.
        # (masking on NaN rather than on "some factor is zero" keeps d/dw at w = 0 intact)
        full = torch.where(torch.isnan(full), torch.full_like(full, self.zero), full)
        internal = [v for v in range(nn) if v not in rule['ext']]
        if self.semiring == 'real':
            out = full.sum(dim=internal) if internal else full
        else:
            out = full.amax(dim=internal) if internal else full
        # remaining dims are the external nodes in node-index order; reorder to rule['ext']
        remaining = [v for v in range(nn) if v in rule['ext']]
        if len(set(rule['ext'])) != len(rule['ext']):
            raise ValueError('duplicate external nodes are outside the stated domain')
        perm = [remaining.index(v) for v in rule['ext']]
        return out.permute(perm) if perm else out

    def F(self, x):
        torch = self.torch
        new = self.zeros()
        for r in self.spec['rules']:
            val = self.rule_value(r, x)
            new[r['lhs']] = new[r['lhs']] + val if self.semiring == 'real' else torch.maximum(new[r['lhs']], val)
        return new

    def kleene(self, max_iter=20000, rtol=1e-15, blowup=1e15):
        """iterate from zero; returns (x, iterations, converged, history of max-diff)"""
        torch = self.torch
        x = self.zeros()
        hist = []
        with torch.no_grad():
            for k in range(max_iter):
                y = self.F(x)
                d = 0.0          # largest change *relative to the entry* (entries may be tiny: an absolute
                m = 0.0          # criterion would stop too early for them)
                for n in self.nts:
                    if y[n].numel():
                        a, b = y[n], x[n]
                        both = (a == b)
                        diff = torch.where(both, torch.zeros_like(a), (a - b).abs())
                        scale = a.abs().clamp(min=1e-300) if self.semiring == 'real' else torch.ones_like(a)
                        rel = torch.where(both, torch.zeros_like(a), diff / scale)
                        d = max(d, float(rel.max()))
                        fin = a[torch.isfinite(a)]
                        if fin.numel():
                            m = max(m, float(fin.abs().max()))
                x = y
                hist.append(d)
                if d != d or m > blowup:
                    return x, k + 1, False, hist
                if d <= rtol:
                    return x, k + 1, True, hist
        return x, max_iter, False, hist

    def unrolled(self, K):
        """K-step Kleene iterate with autograd enabled (weights may require grad)"""
        x = self.zeros()
        for _ in range(K):
            x = self.F(x)
        return x

    def spectral_radius(self, x):
        """spectral radius of dF/dx at x (real semiring)"""
        import numpy as np
        torch = self.torch
        nts = [n for n in self.nts if x[n].numel()]
        sizes = [x[n].numel() for n in nts]
        if not sizes:
            return 0.0
        v0 = torch.cat([x[n].reshape(-1) for n in nts]).clone()

        def f(v):
            xs, o = {}, 0
            for n, s in zip(nts, sizes):
                xs[n] = v[o:o + s].view(x[n].shape)
                o += s
            for n in self.nts:
                if n not in xs:
                    xs[n] = x[n]
            y = self.F(xs)
            return torch.cat([y[n].reshape(-1) for n in nts])
        J = torch.autograd.functional.jacobian(f, v0)
        J = torch.nan_to_num(J, nan=0.0, posinf=1e300, neginf=-1e300).numpy()
        ev = np.linalg.eigvals(J)
        return float(np.max(np.abs(ev))) if ev.size else 0.0


def reference_tables(spec, semiring, max_iter=20000):
    """Reference value of every nonterminal as nested lists.
    returns (dict nt -> nested list, info) or (None, info-with-reason) when the oracle declines."""
    import torch
    rec = G.recursive_nts(spec)
    if not rec:
        tabs = exact_tables(spec, semiring)
        return {n: table_to_nested(spec, n, tabs[n]) for n in spec['nonterminals']}, dict(kind='exact-enumeration')
    if semiring in ('real', 'log'):
        d = Dense(spec, 'real')
        x, it, ok, hist = d.kleene(max_iter=max_iter)
        if not ok:
            return None, dict(reason='kleene-not-converged', iterations=it)
        if any((~torch.isfinite(x[n])).any() for n in x):
            return None, dict(reason='non-finite-lfp')
        rho = d.spectral_radius(x)
        out = {n: (x[n].log() if semiring == 'log' else x[n]).tolist() for n in x}
        return out, dict(kind='dense-kleene', iterations=it, rho=rho)
    if semiring == 'viterbi':
        d = Dense(spec, 'viterbi')
        x, it, ok, hist = d.kleene(max_iter=2000, rtol=0.0)
        if not ok:
            return None, dict(reason='maxplus-not-stationary', iterations=it)
        return {n: x[n].tolist() for n in x}, dict(kind='dense-kleene-maxplus', iterations=it)
    if semiring == 'bool':
        w = {t: torch.tensor(G.weights_in(spec, t, 'bool'), dtype=torch.float64) for t in spec['terminals']}
        # boolean = support: iterate the real evaluator on 0/1 weights with clamping
        d = Dense(spec, 'real', w)
        x = d.zeros()
        with torch.no_grad():
            for it in range(2000):
                y = {n: (v > 0).to(torch.float64) for n, v in d.F(x).items()}
                if all(torch.equal(y[n], x[n]) for n in y):
                    break
                x = y
            else:
                return None, dict(reason='bool-not-stationary')
        return {n: (x[n] > 0).tolist() for n in x}, dict(kind='dense-kleene-bool', iterations=it)
    raise ValueError(semiring)
