"""Brute-force semiring einsum on dense operands: nested loops over all index values."""
import itertools, math

INF = math.inf


def _ops(semiring):
    if semiring == 'real':
        def mul(a, b):
            if a == 0 or b == 0:
                return 0.0
            return a * b
        return 0.0, 1.0, mul, None
    if semiring in ('log', 'viterbi'):
        def mul(a, b):
            if a == -INF or b == -INF:
                return -INF
            return a + b
        return -INF, 0.0, mul, None
    return False, True, (lambda a, b: a and b), None


def lse(xs):
    m = max(xs) if xs else -INF
    if m == -INF or m == INF:
        return m
    return m + math.log(math.fsum(math.exp(x - m) for x in xs))


def einsum(operands, inputs, output, sizes, semiring, want_argmax=False):
    """operands: list of dense torch tensors; inputs: list of index-name tuples; output: tuple of
    index names; sizes: dict index -> size.  Returns nested python structure as a flat dict
    {output index tuple: value} (and {tuple: argmax tuple of summed indices} if want_argmax)."""
    zero, one, mul, _ = _ops(semiring)
    allidx = []
    for inp in inputs:
        for i in inp:
            if i not in allidx:
                allidx.append(i)
    summed = [i for i in allidx if i not in output]
    lists = [op.tolist() for op in operands]

    def entry(k, asst):
        x = lists[k]
        for i in inputs[k]:
            x = x[asst[i]]
        return x
    out, arg = {}, {}
    for o in itertools.product(*[range(sizes[i]) for i in output]):
        asst = dict(zip(output, o))
        terms = []
        best, bestarg = None, None
        for s in itertools.product(*[range(sizes[i]) for i in summed]):
            asst.update(zip(summed, s))
            v = one
            for k in range(len(operands)):
                v = mul(v, entry(k, asst))
            terms.append(v)
            if want_argmax and (best is None or v > best):
                best, bestarg = v, s
        if semiring == 'real':
            out[o] = INF if any(t == INF for t in terms) else math.fsum(terms)
        elif semiring == 'log':
            out[o] = lse(terms)
        elif semiring == 'viterbi':
            out[o] = max(terms) if terms else -INF
        else:
            out[o] = any(terms)
        if want_argmax:
            arg[o] = bestarg
    return (out, arg, summed) if want_argmax else out


def to_tensor(flat, output, sizes, dtype):
    import torch
    shape = [sizes[i] for i in output]
    t = torch.empty(shape, dtype=dtype)
    for o, v in flat.items():
        if o:
            t[o] = v
        else:
            t.fill_(v)
    return t
