"""Self-tests of the oracles on hand-computed cases and against each other (run by ./rv setup)."""
import math


def run():
    ok = True
    from . import sumproduct_ref as R, axis_ref as A
    from ..gen import fggspec as G
    # (1) S -> f(v): sum of f
    spec = dict(domains={'A': 3}, terminals={'f': ['A']}, nonterminals={'S': []}, start='S',
                rules=[dict(lhs='S', nodes=['A'], ext=[], edges=[['f', [0]]])],
                weights={'f': [1.0, 2.0, 3.0]}, wdomain='real')
    t = R.exact_tables(spec, 'real')
    ok &= t['S'][()] == 6.0
    ok &= abs(R.exact_tables(spec, 'log')['S'][()] - math.log(6)) < 1e-12
    ok &= abs(R.exact_tables(spec, 'viterbi')['S'][()] - math.log(3)) < 1e-12
    ok &= R.exact_tables(spec, 'bool')['S'][()] is True
    # (2) edgeless internal node multiplies by its domain size; 0*inf = 0
    spec2 = dict(domains={'A': 2, 'B': 3}, terminals={'f': ['A'], 'g': ['A']}, nonterminals={'S': ['A']}, start='S',
                 rules=[dict(lhs='S', nodes=['A', 'B'], ext=[0], edges=[['f', [0]], ['g', [0]]])],
                 weights={'f': [0.0, 2.0], 'g': [math.inf, 0.5]}, wdomain='real')
    t = R.exact_tables(spec2, 'real')
    ok &= t['S'][(0,)] == 0.0 and t['S'][(1,)] == 3.0
    # (3) geometric recursion X -> a X | b : X = b/(1-a)
    spec3 = dict(domains={'A': 1}, terminals={'a': [], 'b': []}, nonterminals={'S': []}, start='S',
                 rules=[dict(lhs='S', nodes=[], ext=[], edges=[['a', []], ['S', []]]),
                        dict(lhs='S', nodes=[], ext=[], edges=[['b', []]])],
                 weights={'a': 0.5, 'b': 0.25}, wdomain='real')
    ref, info = R.reference_tables(spec3, 'real')
    ok &= abs(ref['S'] - 0.5) < 1e-12 and abs(info['rho'] - 0.5) < 1e-9
    # (4) enumerator vs dense evaluator on random non-recursive specs
    import torch
    for i in range(40):
        rng = G.rng_for('selftest', i)
        sp = G.gen_spec(rng, 'nonrec', [G.FORCED[i % len(G.FORCED)]], allow_inf=False)
        for S in ('real', 'viterbi'):
            ex = R.exact_tables(sp, S)
            d = R.Dense(sp, S)
            x = d.zeros()
            for _ in range(len(sp['nonterminals']) + 1):
                x = d.F(x)
            for n in sp['nonterminals']:
                e = torch.tensor(R.table_to_nested(sp, n, ex[n]), dtype=torch.float64).reshape(x[n].shape)
                if not torch.allclose(x[n], e, rtol=1e-12, atol=1e-300) or not torch.equal(torch.isinf(x[n]), torch.isinf(e)):
                    print('oracle disagreement', i, S, n, x[n].tolist(), e.tolist())
                    ok = False
    # (5) axis evaluation: [X(2)*Y(3), X, Y] from the module docstring of fggs.indices
    ps = dict(psizes=[2, 3], vaxes=[[0, 1], 0, 1], default=0.0, physical=[[1., 2., 3.], [4., 5., 6.]])
    dense, cov = A.densify(ps)
    ok &= cov == 6 and dense[4][1][1] == 5.0 and dense[4][0][1] == 0.0
    ps = dict(psizes=[6], vaxes=[{'before': 1, 'term': 0, 'after': 0}, 0], default=0.0, physical=[1., 2., 3., 4., 5., 6.])
    dense, cov = A.densify(ps)
    ok &= dense[1][0] == 1.0 and dense[6][5] == 6.0 and dense[0][0] == 0.0
    from . import treewidth_ref, scc_ref
    ok &= treewidth_ref.selftest()
    ok &= scc_ref.selftest()
    from . import iso
    ok &= iso.selftest()
    print('oracle self-tests:', 'ok' if ok else 'FAILED')
    return bool(ok)
