"""Reference semirings: the four carriers with their operations written from the definitions.

Vectorised over dense torch tensors using only element-wise torch primitives and explicit
conventions (0 x inf = 0; star from the closed form of sum_n x^n); transcendental references
for the Log semiring are additionally available through mpmath (scalar, 60 digits)."""
import math

INF = math.inf


def ulps(a, b):
    """element-wise distance in units in the last place between float tensors of one dtype
    (0 where both are the same infinity or both NaN; huge where only one is NaN/inf)"""
    import torch
    assert a.dtype == b.dtype
    it = torch.int64 if a.dtype == torch.float64 else torch.int32
    big = 2 ** 62 if a.dtype == torch.float64 else 2 ** 30

    def key(x):
        i = x.contiguous().view(it)
        return torch.where(i < 0, torch.iinfo(it).min - i, i).to(torch.float64)   # monotone map
    d = (key(a) - key(b)).abs()
    both_nan = torch.isnan(a) & torch.isnan(b)
    one_nan = torch.isnan(a) ^ torch.isnan(b)
    d = torch.where(both_nan, torch.zeros_like(d), d)
    d = torch.where(one_nan, torch.full_like(d, big), d)
    d = torch.where((a == 0) & (b == 0), torch.zeros_like(d), d)      # +0 / -0
    return d


class Ref:
    def __init__(self, name, dtype):
        import torch
        self.torch = torch
        self.name = name
        self.dtype = dtype

    # ---- carrier constants
    @property
    def zero(self):
        return {'real': 0.0, 'log': -INF, 'viterbi': -INF, 'bool': False}[self.name]

    @property
    def one(self):
        return {'real': 1.0, 'log': 0.0, 'viterbi': 0.0, 'bool': True}[self.name]

    def from_int(self, n):
        t = self.torch
        if self.name == 'real':
            return t.tensor(float(n), dtype=self.dtype)
        if self.name == 'log':
            return t.tensor(math.log(n) if n > 0 else -INF, dtype=self.dtype)
        if self.name == 'viterbi':
            return t.tensor(0.0 if n > 0 else -INF, dtype=self.dtype)
        return t.tensor(n > 0)

    def add(self, x, y):
        t = self.torch
        if self.name == 'real':
            return x + y
        if self.name == 'log':
            # log(e^x+e^y) = max + log1p(exp(-|x-y|)); equal infinities handled explicitly
            m = t.maximum(x, y)
            d = -(x - y).abs()
            r = m + t.log1p(t.exp(d))
            r = t.where(t.isinf(m), m, r)          # both -inf -> -inf ; any +inf -> +inf
            return r
        if self.name == 'viterbi':
            return t.maximum(x, y)
        return x | y

    def mul(self, x, y):
        t = self.torch
        if self.name == 'real':
            z = (x == 0) | (y == 0)
            r = x * y
            return t.where(z, t.zeros_like(r), r)
        if self.name in ('log', 'viterbi'):
            z = (x == -INF) | (y == -INF)
            r = x + y
            return t.where(z, t.full_like(r, -INF), r)
        return x & y

    def star(self, x):
        t = self.torch
        if self.name == 'real':
            r = 1 / (1 - x)
            return t.where(x >= 1, t.full_like(r, INF), r)
        if self.name == 'log':
            # -log(1-e^x), x<0 ; inf for x>=0
            r = -t.where(x < -1, t.log1p(-t.exp(x)), t.log(-t.expm1(x)))
            r = t.where(x >= 0, t.full_like(r, INF), r)
            return t.where(x == -INF, t.zeros_like(r), r)
        if self.name == 'viterbi':
            return t.where(x > 0, t.full_like(x, INF), t.zeros_like(x))
        return t.ones_like(x, dtype=t.bool)

    def leq(self, y, x):
        """natural order y <= x of the semiring"""
        if self.name == 'bool':
            return (~y) | x
        return y <= x


def mp_log_add(x, y):
    import mpmath as mp
    mp.mp.dps = 60
    if x == INF or y == INF:
        return INF
    if x == -INF:
        return y
    if y == -INF:
        return x
    m = max(x, y)
    return float(mp.mpf(m) + mp.log1p(mp.exp(-abs(mp.mpf(x) - mp.mpf(y)))))


def mp_log_star(x):
    import mpmath as mp
    mp.mp.dps = 60
    if x >= 0:
        return INF
    if x == -INF:
        return 0.0
    return float(-mp.log(-mp.expm1(mp.mpf(x))))


def mp_real_star(x):
    from fractions import Fraction
    if x >= 1:
        return INF
    return float(1 / (1 - Fraction(x)))


POOLS = {
    'real': {
        'float64': [0.0, 5e-324, 1e-310, 1e-30, 0.25, 0.5, 1 - 2 ** -53, 1.0, 1 + 2 ** -52, 2.0, 3.0, 1e30, 1e308, 1.7976931348623157e308, INF],
        'float32': [0.0, 1.4e-45, 1e-40, 1e-30, 0.25, 0.5, 1 - 2 ** -24, 1.0, 1 + 2 ** -23, 2.0, 3.0, 1e30, 3.0e38, 3.4028234663852886e38, INF],
    },
    'log': {
        'float64': [-INF, -1e308, -745.2, -708.0, -1.0, -1e-16, 0.0, 1e-16, 1.0, 2.5, 709.0, 1e308, INF],
        'float32': [-INF, -3e38, -103.9, -87.0, -1.0, -1e-7, 0.0, 1e-7, 1.0, 2.5, 88.0, 3e38, INF],
    },
}
POOLS['viterbi'] = POOLS['log']
