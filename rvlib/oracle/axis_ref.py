"""Independent evaluation of axis expressions and patterned tensors.

An axis expression denotes an injective map from physical indices to one virtual index:
    k (int)                       physical axis number k           -> idx[k]
    [e1, ..., en]                 product (row-major mixed radix)  -> (..(v1*n2 + v2)*n3 + ...)
    {'before':b,'term':e,'after':a}   sum injection                -> b + v(e)
This is the JSON weight format of fggs.formats; evaluated here without Axis.stride/project/to_dense.
"""
import itertools, math


def numel(e, psizes):
    if isinstance(e, int):
        return psizes[e]
    if isinstance(e, list):
        n = 1
        for f in e:
            n *= numel(f, psizes)
        return n
    return e['before'] + numel(e['term'], psizes) + e['after']


def ev(e, idx, psizes):
    if isinstance(e, int):
        return idx[e]
    if isinstance(e, list):
        v = 0
        for f in e:
            v = v * numel(f, psizes) + ev(f, idx, psizes)
        return v
    return e['before'] + ev(e['term'], idx, psizes)


def free(e, out=None):
    if out is None:
        out = set()
    if isinstance(e, int):
        out.add(e)
    elif isinstance(e, list):
        for f in e:
            free(f, out)
    else:
        free(e['term'], out)
    return out


def nested_full(shape, val):
    if not shape:
        return val
    return [nested_full(shape[1:], val) for _ in range(shape[0])]


def get(x, idx):
    for i in idx:
        x = x[i]
    return x


def put(x, idx, val):
    for i in idx[:-1]:
        x = x[i]
    x[idx[-1]] = val


def densify(ps):
    """pattern spec -> (dense nested list, covered count).  Raises ValueError if not injective."""
    psizes = ps['psizes']
    shape = [numel(e, psizes) for e in ps['vaxes']]
    if not shape:
        # scalar
        if psizes:
            raise ValueError('scalar with physical axes')
        return (ps['physical'], 1)
    dense = nested_full(shape, ps['default'])
    seen = set()
    for idx in itertools.product(*[range(s) for s in psizes]):
        v = tuple(ev(e, idx, psizes) for e in ps['vaxes'])
        if v in seen:
            raise ValueError('pattern not injective')
        seen.add(v)
        put(dense, v, get(ps['physical'], idx) if psizes else ps['physical'])
    return dense, len(seen)


def shape_of(ps):
    return [numel(e, ps['psizes']) for e in ps['vaxes']]


# ---------------------------------------------------------------- library objects (duck-typed)

def _kind(ax):
    return type(ax).__name__


def ax_numel(ax):
    k = _kind(ax)
    if k == 'PhysicalAxis':
        return ax._numel
    if k == 'ProductAxis':
        n = 1
        for f in ax.factors:
            n *= ax_numel(f)
        return n
    if k == 'SumAxis':
        return ax.before + ax_numel(ax.term) + ax.after
    raise TypeError(k)


def ax_ev(ax, asst):
    k = _kind(ax)
    if k == 'PhysicalAxis':
        return asst[id(ax)]
    if k == 'ProductAxis':
        v = 0
        for f in ax.factors:
            v = v * ax_numel(f) + ax_ev(f, asst)
        return v
    return ax.before + ax_ev(ax.term, asst)


def ax_free(ax, out):
    k = _kind(ax)
    if k == 'PhysicalAxis':
        out[id(ax)] = ax
    elif k == 'ProductAxis':
        for f in ax.factors:
            ax_free(f, out)
    else:
        ax_free(ax.term, out)
    return out


def ax_shape_key(ax, names):
    """structure of an axis with physical axes numbered by first appearance (for memoisation)"""
    k = _kind(ax)
    if k == 'PhysicalAxis':
        if id(ax) not in names:
            names[id(ax)] = len(names)
        return ('p', names[id(ax)], ax._numel)
    if k == 'ProductAxis':
        return ('*',) + tuple(ax_shape_key(f, names) for f in ax.factors)
    return ('+', ax.before, ax_shape_key(ax.term, names), ax.after)


def check_invariant(pt, memo=None, max_numel=4096):
    """Representation invariant of a PatternedTensor; returns None or a string describing the breach.
    structural part always; injectivity/range exhaustively, memoised on the pattern shape."""
    paxes, vaxes = pt.paxes, pt.vaxes
    if paxes is None or vaxes is None:
        return 'paxes/vaxes is None'
    for k in paxes:
        if _kind(k) != 'PhysicalAxis':
            return f'paxes contains a {_kind(k)}'
    psize = tuple(k._numel for k in paxes)
    if tuple(pt.physical.size()) != psize:
        return f'physical size {tuple(pt.physical.size())} != paxes sizes {psize}'
    if len({id(k) for k in paxes}) != len(paxes):
        return 'paxes not pairwise distinct'
    if any(n == 1 for n in psize):
        return 'physical axis of size 1'
    fr = {}
    for e in vaxes:
        ax_free(e, fr)
    if set(fr) != {id(k) for k in paxes}:
        return f'free axes of vaxes ({len(fr)}) != paxes ({len(paxes)})'
    names = {}
    key = (tuple(ax_shape_key(e, names) for e in vaxes), tuple(names[id(k)] for k in paxes))
    if memo is not None and key in memo:
        return memo[key]
    res = None
    total = 1
    for n in psize:
        total *= n
    if total <= max_numel:
        shape = [ax_numel(e) for e in vaxes]
        seen = set()
        ids = [id(k) for k in paxes]
        for idx in itertools.product(*[range(n) for n in psize]):
            asst = dict(zip(ids, idx))
            v = tuple(ax_ev(e, asst) for e in vaxes)
            if any(not (0 <= x < s) for x, s in zip(v, shape)):
                res = f'index map out of range: {idx}->{v} shape {shape}'
                break
            if v in seen:
                res = f'index map not injective at {v}'
                break
            seen.add(v)
    else:
        res = None
    if memo is not None:
        memo[key] = res
    return res


def densify_pt(pt):
    """PatternedTensor -> dense torch tensor, computed from (physical, paxes, vaxes, default)
    by index arithmetic of our own (no to_dense / project / stride)."""
    import torch
    paxes, vaxes = list(pt.paxes), list(pt.vaxes)
    shape = [ax_numel(e) for e in vaxes]
    phys = pt.physical
    if phys.dtype == torch.bool:
        out = torch.full(shape, bool(pt.default), dtype=torch.bool)
    else:
        try:
            out = torch.full(shape, pt.default, dtype=phys.dtype)
        except RuntimeError:      # default not representable in the tensor's dtype: denote what a cast gives
            out = torch.full(shape, pt.default, dtype=torch.float64).to(phys.dtype)
    psize = [k._numel for k in paxes]
    if any(n == 0 for n in psize) or any(s == 0 for s in shape):
        return out
    ids = [id(k) for k in paxes]
    # vectorised: index grids over the physical space
    grids = torch.meshgrid(*[torch.arange(n) for n in psize], indexing='ij') if psize else ()
    asst = dict(zip(ids, grids))

    def evt(ax):
        k = _kind(ax)
        if k == 'PhysicalAxis':
            return asst[id(ax)]
        if k == 'ProductAxis':
            v = 0
            for f in ax.factors:
                v = v * ax_numel(f) + evt(f)
            return v
        return ax.before + evt(ax.term)
    if not vaxes:
        return phys.reshape(()).clone()
    vidx = []
    for e in vaxes:
        v = evt(e)
        if not torch.is_tensor(v):
            v = torch.full(psize, v, dtype=torch.long) if psize else torch.tensor(v)
        elif psize:
            v = v.expand(psize)
        vidx.append(v.reshape(-1))
    out[tuple(vidx)] = phys.reshape(-1) if psize else phys.reshape(())
    return out
