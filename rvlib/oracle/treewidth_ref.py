"""Exact treewidth (DP over vertex subsets) and an independent tree-decomposition validator."""
from functools import lru_cache


def treewidth(adj):
    """adj: dict v -> set of neighbours (simple undirected).  Returns treewidth (-1 for the empty graph)."""
    vs = sorted(adj, key=repr)
    n = len(vs)
    if n == 0:
        return -1
    idx = {v: i for i, v in enumerate(vs)}
    nb = [0] * n
    for v in vs:
        for u in adj[v]:
            if u != v:
                nb[idx[v]] |= 1 << idx[u]
    full = (1 << n) - 1

    def q(S, v):
        # vertices outside S+{v} reachable from v through vertices of S
        seen = 1 << v
        frontier = 1 << v
        out = 0
        while frontier:
            w = (frontier & -frontier).bit_length() - 1
            frontier &= frontier - 1
            m = nb[w] & ~seen
            seen |= m
            out |= m & ~S
            frontier |= m & S
        return bin(out & ~(1 << v)).count('1')

    # TW[S] = min over v in S of max(TW[S-v], q(S-v, v)); process subsets by increasing size
    TW = {0: -1}
    by_size = sorted(range(1, full + 1), key=lambda S: bin(S).count('1'))
    for S in by_size:
        best = n
        T = S
        while T:
            v = (T & -T).bit_length() - 1
            T &= T - 1
            R = S & ~(1 << v)
            c = max(TW[R], q(R, v))
            if c < best:
                best = c
        TW[S] = best
    return TW[full]


def order_width(adj, order):
    """width of an elimination order (max degree at elimination time); None if order is not a permutation"""
    if sorted(map(repr, order)) != sorted(map(repr, adj)) or len(set(order)) != len(order):
        return None
    g = {v: set(adj[v]) - {v} for v in adj}
    w = -1 if not g else 0
    for v in order:
        ns = g[v]
        w = max(w, len(ns))
        for a in ns:
            g[a] |= ns - {a}
            g[a].discard(v)
        del g[v]
    return w


def validate_td(adj, tree):
    """tree: dict bag(frozenset) -> iterable of neighbouring bags.  Returns list of defects (empty = valid)."""
    bad = []
    bags = list(tree)
    if not bags:
        return ['no bags at all'] if True else []
    for b in bags:
        if not isinstance(b, frozenset):
            bad.append(f'bag {b!r} is not a frozenset')
            return bad
    # symmetric adjacency, no self loops, neighbours are bags
    edges = set()
    for b in bags:
        for c in tree[b]:
            if c == b:
                bad.append('self-loop on a bag')
            if c not in tree:
                bad.append('neighbour is not a bag of the tree')
                return bad
            if b not in tree[c]:
                bad.append('asymmetric tree adjacency')
            edges.add(frozenset((b, c)))
    # connected
    seen = {bags[0]}
    stack = [bags[0]]
    while stack:
        b = stack.pop()
        for c in tree[b]:
            if c not in seen:
                seen.add(c)
                stack.append(c)
    if len(seen) != len(bags):
        bad.append(f'tree not connected ({len(seen)} of {len(bags)} bags reachable)')
    if len(edges) != len(bags) - 1:
        bad.append(f'not a tree: {len(bags)} bags, {len(edges)} edges')
    allv = set()
    for b in bags:
        allv |= b
    for v in adj:
        if v not in allv:
            bad.append(f'vertex {v!r} in no bag')
    for v in allv:
        if v not in adj:
            bad.append(f'bag contains unknown vertex {v!r}')
    for v in adj:
        for u in adj[v]:
            if u != v and not any(v in b and u in b for b in bags):
                bad.append(f'edge {v!r}-{u!r} in no bag')
    # running intersection
    for v in allv:
        holder = [b for b in bags if v in b]
        s = {holder[0]}
        st = [holder[0]]
        while st:
            b = st.pop()
            for c in tree[b]:
                if v in c and c not in s:
                    s.add(c)
                    st.append(c)
        if len(s) != len(holder):
            bad.append(f'bags containing {v!r} are not connected')
    return bad


def td_width(tree):
    return max((len(b) for b in tree), default=0) - 1


def selftest():
    ok = True
    path = {0: {1}, 1: {0, 2}, 2: {1, 3}, 3: {2}}
    ok &= treewidth(path) == 1
    cyc = {i: {(i - 1) % 5, (i + 1) % 5} for i in range(5)}
    ok &= treewidth(cyc) == 2
    k4 = {i: {j for j in range(4) if j != i} for i in range(4)}
    ok &= treewidth(k4) == 3
    grid = {}
    for r in range(3):
        for c in range(3):
            grid[(r, c)] = {(r + dr, c + dc) for dr, dc in ((0, 1), (1, 0), (0, -1), (-1, 0)) if 0 <= r + dr < 3 and 0 <= c + dc < 3}
    ok &= treewidth(grid) == 3
    iso = {0: set(), 1: set()}
    ok &= treewidth(iso) == 0 and treewidth({}) == -1
    t = {frozenset({0, 1}): {frozenset({1, 2})}, frozenset({1, 2}): {frozenset({0, 1}), frozenset({2, 3})}, frozenset({2, 3}): {frozenset({1, 2})}}
    ok &= validate_td(path, t) == [] and td_width(t) == 1
    t2 = {frozenset({0, 1}): {frozenset({2, 3})}, frozenset({2, 3}): {frozenset({0, 1})}}
    ok &= validate_td(path, t2) != []
    ok &= order_width(cyc, [0, 1, 2, 3, 4]) == 2
    return ok
