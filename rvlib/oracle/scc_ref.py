"""Strongly connected components from the reachability closure (Warshall); order condition."""


def closure(g):
    vs = list(g)
    r = {u: set(g[u]) | {u} for u in vs}
    for k in vs:
        for i in vs:
            if k in r[i]:
                r[i] |= r[k]
    return r


def components(g):
    r = closure(g)
    comp = {}
    for u in g:
        comp[u] = frozenset(v for v in g if v in r[u] and u in r[v])
    return set(comp.values()), comp


def judge(g, comps):
    """comps: list of collections as returned by fggs.utils.scc.  Returns list of defects."""
    bad = []
    want, comp_of = components(g)
    got = [frozenset(c) for c in comps]
    flat = [v for c in comps for v in c]
    if len(flat) != len(set(flat)):
        bad.append('a vertex occurs in two components')
    if set(flat) != set(g):
        bad.append(f'components cover {sorted(map(str, set(flat)))} but vertices are {sorted(map(str, g))}')
    if set(got) != want:
        bad.append(f'components {sorted(sorted(map(str, c)) for c in got)} != expected {sorted(sorted(map(str, c)) for c in want)}')
    pos = {}
    for i, c in enumerate(comps):
        for v in c:
            pos[v] = i
    for u in g:
        for v in g[u]:
            if u in pos and v in pos and pos[v] > pos[u]:
                bad.append(f'edge {u}->{v} goes from component {pos[u]} into the later component {pos[v]}')
                return bad
    return bad


def selftest():
    g = {1: {2: None}, 2: {1: None, 3: None}, 3: {}, 4: {4: None}}
    ok = judge(g, [{3: None}, {1: None, 2: None}, {4: None}]) == []
    ok &= judge(g, [{1: None, 2: None}, {3: None}, {4: None}]) != []
    ok &= judge(g, [{3: None}, {1: None}, {2: None}, {4: None}]) != []
    return ok
