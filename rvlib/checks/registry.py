"""Per-property metadata for MANIFEST.json (kept next to the checks it describes)."""

LEVEL_NOTE_COMMON = ('Trusted base: CPython, fractions, numpy.linalg.eigvals (case selection only), dense torch '
                     'element-wise ops / torch.einsum / autograd on dense float64 tensors, the oracles under '
                     'rvlib/oracle (self-tested by ./rv setup). Inputs bounded as in DESIGN.md §2.6; '
                     'held = held on the executions listed in the evidence file, nothing more.')

CHECKS = {
    'C01': dict(
        technique='boundary monitor on sum_product/sum_products + exact brute-force enumeration oracle (runtime monitoring)',
        text=('Runtime monitoring: every call of sum_product / sum_products / singleton_fgg made by a stratified '
              'generated workload of non-recursive grammars (all structural features of the statement x dense/patterned '
              'weights x 4 semirings x 4 method names x float32/float64) is compared with an exact enumeration of all '
              'assignments written from the definition; a hook on SumProduct.forward records the per-SCC method. '
              'Exploration-level assurance: held on the generated cases, each feature class reached for every seed by construction.'),
        design_ref='DESIGN.md §4 C01'),
}

NOT_BUILT = {}
