"""Per-property metadata for MANIFEST.json (kept next to the checks it describes)."""

LEVEL_NOTE_COMMON = ('Trusted base: CPython, fractions, numpy.linalg.eigvals (case selection only), dense torch '
                     'element-wise ops / torch.einsum / autograd on dense float64 tensors, the oracles under '
                     'rvlib/oracle (self-tested by ./rv setup). Inputs bounded as in DESIGN.md §2.6; '
                     'held = held on the executions listed in the evidence file, nothing more.')

CHECKS = {
    'C01': dict(
        technique='boundary monitor on sum_product/sum_products + exact brute-force enumeration oracle (runtime monitoring)',
        text=('Runtime monitoring: every call of sum_product / sum_products / singleton_fgg made by a stratified '
              'generated workload of non-recursive grammars (all structural features of the statement x dense/patterned '
              'weights x 4 semirings x 4 method names x float32/float64) is compared with an exact enumeration of all '
              'assignments written from the definition (rules counted as a multiset: one stratum adds the same rule twice as a copy with '
              'identical ids); a hook on SumProduct.forward records the per-SCC method. '
              'Exploration-level assurance: held on the generated cases, each feature class reached for every seed by construction.'),
        design_ref='DESIGN.md §4 C01'),
    'C10': dict(
        technique='boundary monitor on tree_decomposition/min_fill/quickbb/minor_min_width + validator and exact treewidth DP oracle (runtime monitoring)',
        text=('Runtime monitoring: tree_decomposition with each method, min_fill, quickbb and the bound helpers are called on every labelled '
              'graph with <=5 vertices (exhaustive, 1100 graphs) and on random/disconnected/named-family graphs up to 9 (quick) / 11 (thorough) '
              'vertices in shuffled insertion orders; each result is judged by an independent validator (tree-ness, vertex/edge cover, running '
              'intersection) and against the exact treewidth from a subset DP. Call-history stratum: each graph of a corpus on which min_fill is '
              'suboptimal is first decomposed right after a maximally dense graph with the same (pair-private) vertex names and edge count, '
              'so that state kept between calls under a cheap fingerprint shows as a wrong width. Exploration level; exhaustive: true only for the <=5-vertex bound.'),
        design_ref='DESIGN.md §4 C10'),
    'C19': dict(
        technique='boundary monitor on scc/nonterminal_graph + reachability-closure oracle; trace checker over solve order (runtime monitoring)',
        text=('Runtime monitoring: fggs.utils.scc is executed on every digraph with self-loops on <=3 vertices in every vertex and neighbour '
              'insertion order and on all 65,536 4-vertex digraphs (exhaustive for those bounds), plus random digraphs to 12 vertices, and judged '
              'against components computed from the Warshall closure and the order condition; nonterminal_graph is compared with the relation '
              'read off generated grammar specs; a hook on SumProduct.apply_to_patterned_tensors records the order in which SCCs are solved and an '
              'offline checker verifies that nothing is solved before its dependencies and every nonterminal gets a value.'
              ' Grammars are also edited after evaluation (edge added to an existing right-hand side / rule added) and evaluated again; nonterminals that are only declared, start symbols without rules and rule-less grammars are included.'),
        design_ref='DESIGN.md §4 C19'),
    'C20': dict(
        technique='boundary monitor with table-lookup reference model over generated domain/factor universes (runtime monitoring)',
        text=('Runtime monitoring: for generated universes of finite/range domains (sizes 0..5, str/int/tuple values) every clause of the statement '
              'is observed on the real classes: numberize/denumberize bijection, contains, equality by content, acceptance of exactly the right '
              'weight shape in three representations, apply on every value tuple against a table lookup, factor equality across representations, '
              'and every admissible and inadmissible binding (rebinding, arity, domain, unmapped label, nonterminal, unknown name) incl. that a '
              'failed call leaves the interpretation unchanged; on FGG and FactorGraph.'),
        design_ref='DESIGN.md §4 C20'),
    'C08': dict(
        technique='reference-model monitor (exact/mpmath semiring) over exhaustive pool triples + random triples; representation differential on patterned operands (runtime monitoring)',
        text=('Runtime monitoring: every semiring operation of the real classes is executed on all triples of boundary-heavy pools (0, subnormals, '
              '1-eps, 1, 1+eps, huge, max, inf; -inf..inf for the log carriers; both booleans; float32 and float64) and on random triples, and judged '
              '(i) per operation against a reference semiring written from the definitions (bitwise for exact ops, <=8 ulp / <=4 ulp vs mpmath for '
              'transcendental ones, star against the closed form of the least solution), (ii) per law instance with both sides computed by the library, '
              'skipping instances whose IEEE reference sides already disagree, (iii) add/mul/sub on random well-typed PatternedTensor operands against '
              'the same call on dense operands. Exploration level; the pools are exhausted, the carrier is sampled.'),
        design_ref='DESIGN.md §4 C08'),
    'C16': dict(
        technique='invariant-at-a-hook monitor over random API histories: class invariants, post-conditions, atomicity snapshots, copy-independence probe, == equivalence (runtime monitoring; icontract invariants in the thorough tier)',
        text=('Runtime monitoring: random histories of 8..40 public calls (about 30 % failing by construction) are executed on a pool of Graph, HRG, '
              'FactorGraph and FGG objects; after every call the well-formedness invariants of the statement are evaluated on every object through '
              'the public accessors, successful calls are checked against their post-condition, raising calls against a before/after snapshot '
              '(atomicity), copies for equality, well-formedness and independence (incl. label tables, domains, factor weights), and == for being '
              'an equivalence that distinguishes. The thorough tier additionally installs icontract class invariants on Graph/HRG so objects the '
              'library builds internally are checked around every public method. One recorded open finding (rhs mutated after rule creation).'),
        design_ref='DESIGN.md §4 C16'),
    'C02': dict(
        technique='boundary monitor vs dense Kleene reference + offline trace checker over hooked solver events (stop verdicts, warnings, per-SCC method) (runtime monitoring)',
        text=('Runtime monitoring: generated recursive grammars (linear, non-linear, mutually recursive, mixed SCC DAGs, cycles of weight exactly one) are '
              'conditioned so that an independent dense Kleene iteration converges (spectral radius <= 0.9), then solved by the real library under 4 '
              'semirings x 3 methods x tol in {1e-4,1e-8,1e-12} and under starved budgets kmax in {0,1,2,5}. Values are compared with the reference '
              '(exact in Bool, 1e-9 in Viterbi, a tol-proportional bound derived from the Jacobian in Real/Log). Hooks on fixed_point, newton, '
              'MultiTensor.shouldStop and warnings.warn record per solver activation the stopping verdicts and warnings; the offline rule is that a '
              'solver returning with its last verdict False must have warned. method="linear" must raise ValueError exactly on specs that are not '
              'linearly recursive.'
              ' Further strata: patterned factor weights, matrix closures with a sparse base factor, long path automata, a cyclic component with a private outside dependency; the same FGG object re-weighted (setter or in place) and solved again; with kmax=5000 on these conditioned grammars an exhausted budget is itself a violation.'),
        design_ref='DESIGN.md §4 C02'),
    'C03': dict(
        technique='boundary monitor on backward() vs autograd through an independent dense unrolled Kleene iteration (runtime monitoring)',
        text=('Runtime monitoring: for generated grammars of all recursion classes (conditioned to spectral radius <= 0.9; strata for shared factors, '
              'a factor twice in a rule, edges on external nodes, edgeless nodes, unreachable factors, zero weights, patterned weights) the real '
              'sum_product is differentiated in the Real and Log semirings under every admissible method with a random output cotangent, and each '
              'weights.grad is compared (rtol 1e-6) with torch.autograd through a dense K-step Kleene iteration written independently, K doubled '
              'until values and gradients are stationary to 1e-10. Hooks count SumProduct.backward, J, J_log and the duplicated-external-node '
              'special case so that an unreached mechanism makes the run inconclusive.'
              ' A weight edited in place between forward and backward() may make autograd refuse; a gradient that is returned must be the derivative of the value that was returned.'),
        design_ref='DESIGN.md §4 C03'),
    'C04': dict(
        technique='boundary monitor on viterbi/derive with independent well-formedness checker and exact max-plus Kleene oracle (runtime monitoring)',
        text=('Runtime monitoring: viterbi is called on generated grammars of every recursion class (incl. cycles of weight exactly one that tie with '
              'the optimum, rules whose nodes are all external, edgeless internal/external nodes, size-1 domains, start arity > 0) for every start '
              'assignment with a finite optimum. Each returned derivation is judged by an independent checker (rule belongs to the rewritten '
              'nonterminal, one child per nonterminal edge, every node has an in-domain value, externals agree with the parent), its weight is '
              'recomputed from the tree and from derive() with the spec\'s own tables and compared with the exact max-plus optimum obtained by dense '
              'Kleene iteration and with the Viterbi-semiring sum_product. A hook counts einsum calls with 0, 1, >=2 summed-out indices.'),
        design_ref='DESIGN.md §4 C04'),
    'C05': dict(
        technique='boundary monitor on factorize_* with independent inliner + hypergraph isomorphism oracle, sum-product differential, spy hook on tree_decomposition (runtime monitoring)',
        text=('Runtime monitoring: generated grammars (isolated nodes, several components, nullary and repeated-attachment edges, externals anywhere, '
              'rules up to 7 nodes, a stratum whose terminal names look like fresh names) are factorized through factorize_rule (labels None/given), '
              'factorize_hrg and factorize_fgg under all three methods. An independent plain-data inliner replaces every fresh nonterminal by its '
              'unique rule and a backtracking isomorphism checker compares the result with the original rule; fresh names, rule widths, start, '
              'terminals, factors and domains are checked, the sum-product of the factorized grammar is compared with the reference in 4 semirings, '
              'and a spy hook on tree_decomposition records which method actually ran for each entry point.'),
        design_ref='DESIGN.md §4 C05'),
    'C06': dict(
        technique='differential monitor of every PatternedTensor operation vs torch on independently densified operands + invariant hook on __post_init__ (FGGS_VERIF) + lock-step random programs (runtime monitoring)',
        text=('Runtime monitoring: type-directed random operands (sum/product/shared axes, stride-0 storage, size-1 and zero-size axes, all defaults, '
              'operands sharing PhysicalAxis objects) are put through ~90 operation variants of the class (arithmetic with tensors/scalars/broadcasting, '
              'comparisons, logical ops, unary maps and in-place forms on clones, where, any, log_softmax, norm, indexing, iteration, tolist, '
              'transpose/permute/flatten/unsqueeze/expand/stack, reshape/view incl. the must-succeed cases, clone/copy_/to/default_to/project/'
              'dim_to_dense, constructors) and through short random programs; each result is densified by index arithmetic of our own and compared '
              'with torch on the dense operands (bitwise for exact ops, 4 ulp otherwise). With FGGS_VERIF=1 a wrapper on PatternedTensor.__post_init__ '
              'checks the representation invariant of every tensor the library constructs (about 270k constructions, 7k distinct pattern shapes per '
              'quick run), including under sum-product/backward workloads on patterned weights.'),
        design_ref='DESIGN.md §4 C06'),
    'C07': dict(
        technique='boundary monitor on einsum/mv/mm/log_viterbi_einsum_forward vs brute-force nested-loop semiring einsum on independently densified operands; hook on reduce_equation (runtime monitoring)',
        text=('Runtime monitoring: random einsum signatures (<= 4 typed indices, <= 3 operands, indices repeated across and within operands, any output '
              'order, zero-size dims) with well-typed patterned operands (sum/product/shared axes, stride-0 views, non-zero defaults, operands sharing '
              'axis objects) are evaluated by the real einsum in 4 semirings, on the equation-reduction path and on the requires_grad path (under '
              'no_grad), plus mv/mm, the empty operand list and chained operations (the result of an earlier mv used as operand against a '
              'unit axis typed as a one-summand sum); every result is compared with a brute-force nested-loop evaluation. For the Viterbi '
              'variant the pointer tensor must have one entry per summed-out index and, plugged back into the operands, attain the maximum in every '
              'cell. A hook on reduce_equation counts reductions that really dropped a stride-0 dimension.'),
        design_ref='DESIGN.md §4 C07'),
    'C13': dict(
        technique='boundary monitor on equal/allclose/equal_default/allclose_default/MultiTensor.allclose vs torch.equal/allclose on independently densified, constructively generated pairs (runtime monitoring)',
        text=('Runtime monitoring: pairs of well-typed patterns over a common shape are generated from their support relation (identical, nested, one '
              'side full, overlapping, disjoint; union covering the tensor or not): equal by construction through two different patterns (also with '
              'different defaults when every element is backed on some side), then perturbed in one element by 0, atol/2, 2*atol or a different value, '
              'or random, or with NaN/inf entries; the decisions of equal (both directions, reflexivity, clone, densification, other shape), allclose '
              'over five (rtol, atol) settings incl. an asymmetric one, equal_default/allclose_default and MultiTensor.allclose with absent blocks are '
              'compared with torch.equal/torch.allclose on operands densified by index arithmetic of our own.'),
        design_ref='DESIGN.md §4 C13'),
    'C09': dict(
        technique='boundary monitor on Semiring.solve/PatternedTensor.solve/multi_solve/multi_mv vs series-definition oracle with divergence classification; argument snapshot + Tensor._version monitor; hooks on solve_thunks and _order_nonterminals (runtime monitoring)',
        text=('Runtime monitoring: dense n x n systems (n <= 6) in the convergent, exactly-one (stochastic), divergent and infinite-entry classes, '
              'PatternedTensor.solve with typed sparsity patterns on both operands, and block systems over every presence pattern of a 3x3 block '
              'structure (512, exhaustive over structure) plus random 4x4 ones, with block shapes (), (k,), (k,l), dense or patterned blocks, '
              'absent diagonal blocks, both transposes, in 4 semirings. Results are compared with the least solution computed from the series '
              'definition (support-graph reachability + per-SCC spectral radius decide where the sum diverges, Kleene iteration elsewhere; '
              'longest path for Viterbi, reachability for Bool); multi_mv with the dense product; arguments are snapshotted (bytes and _version). '
              'Hooks count LU-accepted vs Gauss-Jordan-fallback runs and the distinct elimination orders. One open finding (critical systems).'),
        design_ref='DESIGN.md §4 C09'),
    'C11': dict(
        technique='differential monitor across method x j_precompute x dtype x semiring in-process and across python/-O/-OO subprocesses and bin/sum_product.py -OO, each side also judged against the reference (runtime monitoring)',
        text=('Runtime monitoring: each generated grammar with finite Z (all recursion classes, incl. rules with >= 3 edges and a node private to the '
              'first ones, edgeless nodes) is solved by the real library under every admissible method x j_precompute x float32/float64 x Real/Log '
              'with values and gradients compared to the independent reference (so the wrong side is named), the Bool/Viterbi results are checked '
              'against the support / the Log value, the same seeded batch is executed by python, python -O and python -OO subprocesses whose '
              'hex-dumped results must agree to 1e-12, and bin/sum_product.py is run under -OO on generated JSON files and compared with the '
              'reference. Hooks prove that both J and J_precompute_products ran. One open finding: j_precompute=True (D6).'
              ' Further strata: command-line corner cases (unused factor, no factor participates, zero start, start arity 2), long path automata, and Log-semiring runs on weights scaled by 1e-9..1e-12 (the real value underflows float32) that must still give log Z in both dtypes and all methods.'),
        design_ref='DESIGN.md §4 C11'),
    'C12': dict(
        technique='metamorphic monitor over presentations (orders, ids, renamings, value permutations) + PYTHONHASHSEED subprocess sweep; hooks record the SCC, elimination and edge orders actually taken (runtime monitoring)',
        text=('Runtime monitoring: each generated grammar is realised in 7 presentations (random rule/node/edge insertion orders, explicit vs implicit '
              'ids, consistent renaming of node labels, edge labels and domain values, permutation of domain values with the factor axes) and the '
              'real sum_product (Real fixed-point/newton/linear, Log, Viterbi, Bool), Real gradients and viterbi weights of every presentation are '
              'compared with the canonical one after permuting back (1e-9). One stratum is a dense linearly recursive component (4-6 '
              'nonterminals, several back edges into one of them) on which the block solve has real elimination-order choices. Batches are also executed under PYTHONHASHSEED 0..3 in subprocesses and '
              'compared. Hooks on scc, _order_nonterminals and sum_product_edges record the orders actually taken; the run is inconclusive unless at '
              'least half of the grammars that offer a choice were seen under >= 2 distinct orders and the hash seeds changed some order.'),
        design_ref='DESIGN.md §4 C12'),
    'C15': dict(
        technique='contract hook (pre/post snapshot) on replace_edge + confluence monitor over all linearisations of generated derivations + independent plain-data expansion and isomorphism oracle (runtime monitoring)',
        text=('Runtime monitoring: a wrapper on replace_edge (active also for the calls derive() makes) snapshots the host before each call and checks the '
              'post-state of the statement: exactly that edge gone, externals identified in order, every other node and edge copied freshly with '
              'label and attachment order, rest of the host and its externals untouched, replacement unmodified, wrong type => ValueError with the '
              'host unchanged. Generated derivation trees (up to 6/9 rule instances, same rule reused) are rewritten in every linearisation of the '
              'pending nonterminal edges (exhaustive when <= 720 orders); all results must be isomorphic to each other and to an independent '
              'plain-data expansion; derive() must yield that graph with a total assignment whose weight equals the product of the rule-instance weights.'),
        design_ref='DESIGN.md §4 C15'),
    'C14': dict(
        technique='boundary monitor on the JSON readers/writers: round trip judged through public accessors by an independent isomorphism checker, weight specifications judged by an independent axis evaluator, mutated JSON for the rejection clause (runtime monitoring)',
        text=('Runtime monitoring: generated grammars (explicit / implicit / mixed ids, range or finite domains with JSON-native values, dense or '
              'patterned weights with zero and infinite entries, float32/float64, start arity 0 or > 0, shuffled rule order) go through fgg_to_json '
              '-> json.dumps -> json.loads -> json_to_fgg and the HRG variants; the reloaded grammar is compared with the original through the '
              'public accessors only (start, labels and types, rules of each left-hand side isomorphic in order, externals, explicit ids, domains, '
              'dense weights by value, sum-product), a second round trip must be verbatim when all ids are explicit, every attachment/external '
              'index is mutated to out-of-range and negative values that must raise ValueError, and json_to_weights is compared with an '
              'independent evaluation of random physical/expand/vaxes/default specifications.'),
        design_ref='DESIGN.md §4 C14'),
    'C17': dict(
        technique='boundary monitor on conjoin_hrgs with hooks on nonterminal_pairs/conjoin_rules; independent conjoinability predicate and derivation-tree enumeration to a depth bound, checked for a bijection (runtime monitoring)',
        text=('Runtime monitoring: pairs of HRGs built over shared skeletons (several rules per skeleton, skeletons in one grammar only, differing '
              'externals/attachments, own and shared terminals, name-clash strata such as "X"+"Y,Z" vs "X,Y"+"Z" and a terminal literally called '
              '"<X,P>", genuine terminal conflicts) are conjoined by the real function. Hooks expose the label pairing and the rule pair behind '
              'every conjoined rule; the monitor checks that the conjoined rules are exactly the conjoinable pairs (independent predicate), that '
              'each carries the nodes, externals, one paired nonterminal edge per shared edge and the terminal edges of both rules, that paired '
              'names are unique and collide with nothing, that conflicts raise ValueError, and that the derivation trees of the result up to depth '
              '4/6 are in bijection with the independently enumerated pairs of derivation trees of the inputs.'
              ' In part of the cases the first grammar is edited in place after a conjunction (a nonterminal edge relabelled) and conjoined again.'),
        design_ref='DESIGN.md §4 C17'),
    'C18': dict(
        technique='snapshot + Tensor._version monitor around every step of random query sequences on the same objects; repeated-query reproducibility monitor; clone-aliasing probe (runtime monitoring)',
        text=('Runtime monitoring: on one generated grammar (dense, patterned, stride-0 and non-contiguous weights; with and without requires_grad) a '
              'random sequence of 12 queries is executed on the same objects - sum_product under varying method/semiring, sum_products, backward, '
              'viterbi, factorize_rule/hrg/fgg, conjoin_hrgs, fgg_to_json/hrg_to_json, copy. Around every step a deep snapshot taken through the '
              'public accessors (structure, label tables, domains; for every weight tensor bytes, shape, strides, offset, dtype, default, '
              'requires_grad, axis objects) and the storage version counters are compared, so both .data writes and write-then-restore are seen; '
              'each repeated query must reproduce its first result bitwise (tensors) / isomorphically (grammars) whatever ran in between; '
              'in-place operations on MultiTensor clones must leave the source untouched.'
              ' The grammar factorize_fgg returns is itself passed to the JSON writers and snapshotted; finite domains with tuple / frozenset values; snapshots never read through a monitored writer.'),
        design_ref='DESIGN.md §4 C18'),
}

NOT_BUILT = {}
