"""C10 — tree decompositions are valid; exact methods are optimal.

Boundary monitor on fggs.factorize.tree_decomposition / min_fill / minor_min_width / quickbb;
oracle = independent validator + exact treewidth by DP over vertex subsets."""
import itertools
from . import common as C
from ..core import env
from ..gen import fggspec as G
from ..oracle import treewidth_ref as T

PROPERTY = 'C10'
RULE = ('every labelled simple graph on <=5 vertices (1100 graphs, exhaustive) plus random G(n,p) with forced isolated vertices / several '
        'components, named families (paths, cycles, cliques, stars, trees, grids, barbells, disjoint unions) in several insertion orders; '
        'each judged under min_fill, quickbb, acb and the bound helpers. evaluations = graphs; non-trivial = graph with >=1 edge and '
        '>=3 vertices; distinct = distinct adjacency presentations')
ASSUMPTIONS = ['simple undirected graphs given as symmetric adjacency dict of sets', 'exact treewidth oracle: DP over subsets, n <= 12']
METHODS = ('min_fill', 'quickbb', 'acb')
EX_CHUNKS = 22


N_CORPUS = 24     # cases of the min_fill-suboptimal corpus (10 graphs each)


def plan(tier, seed):
    if tier == 'quick':
        return dict(n=EX_CHUNKS + 120 + 60 + 6, budget_s=70, case_timeout=200)
    return dict(n=EX_CHUNKS + 40000 + 6000 + N_CORPUS, budget_s=840, case_timeout=400)


def corpus():
    import json, os
    with open(os.path.join(os.path.dirname(os.path.dirname(os.path.abspath(__file__))), 'gen', 'data', 'minfill_hard.json')) as f:
        return json.load(f)


def all_graphs_upto5():
    for n in range(0, 6):
        pairs = list(itertools.combinations(range(n), 2))
        for code in range(1 << len(pairs)):
            adj = {v: set() for v in range(n)}
            for i, (a, b) in enumerate(pairs):
                if code >> i & 1:
                    adj[a].add(b)
                    adj[b].add(a)
            yield n, code, adj


def families(rng):
    out = []
    n = rng.randint(2, 8)
    out.append(('path', {i: {j for j in (i - 1, i + 1) if 0 <= j < n} for i in range(n)}))
    n = rng.randint(3, 8)
    out.append(('cycle', {i: {(i - 1) % n, (i + 1) % n} for i in range(n)}))
    n = rng.randint(2, 6)
    out.append(('clique', {i: {j for j in range(n) if j != i} for i in range(n)}))
    n = rng.randint(3, 8)
    star = {0: set(range(1, n))}
    star.update({i: {0} for i in range(1, n)})
    out.append(('star', star))
    n = rng.randint(3, 9)
    tree = {0: set()}
    for i in range(1, n):
        p = rng.randrange(i)
        tree[i] = {p}
        tree[p].add(i)
    out.append(('tree', tree))
    r, c = rng.choice([(2, 2), (2, 3), (2, 4), (3, 3)])
    grid = {}
    for i in range(r):
        for j in range(c):
            grid[(i, j)] = {(i + a, j + b) for a, b in ((0, 1), (1, 0), (0, -1), (-1, 0)) if 0 <= i + a < r and 0 <= j + b < c}
    out.append(('grid', grid))
    k = rng.randint(2, 4)
    bar = {('a', i): {('a', j) for j in range(k) if j != i} for i in range(k)}
    bar.update({('b', i): {('b', j) for j in range(k) if j != i} for i in range(k)})
    bar[('a', 0)].add(('b', 0))
    bar[('b', 0)].add(('a', 0))
    out.append(('barbell', bar))
    # disjoint union of two of the above + isolated vertex
    (n1, g1), (n2, g2) = rng.sample(out, 2)
    un = {('x', v): {('x', u) for u in g1[v]} for v in g1}
    un.update({('y', v): {('y', u) for u in g2[v]} for v in g2})
    if rng.random() < 0.7:
        un['iso'] = set()
    out.append(('union', un))
    return out


def present(rng, adj, shuffle=True):
    """a fresh dict with shuffled vertex insertion order (sets keep hash order)"""
    vs = list(adj)
    if shuffle:
        rng.shuffle(vs)
    return {v: set(adj[v]) for v in vs}


def judge(F, adj, viols, ctx, counters, with_acb=True):
    """run every method on copies of adj and compare with the oracle"""
    tw = T.treewidth(adj)
    n = len(adj)
    widths = {}
    for m in METHODS:
        if m == 'acb' and not with_acb:
            continue
        g = {v: set(adj[v]) for v in adj}
        out = C.call(F.tree_decomposition, g, method=m)
        counters['tree_decomposition_calls'] = counters.get('tree_decomposition_calls', 0) + 1
        if not out['ok']:
            viols.append(C.viol(f"td-exception:{m}:{out['exc_type']}:{out.get('where', '')}", f"tree_decomposition({m}) raised {out['exc']}",
                                graph=show(adj), context=ctx, traceback=out['tb']))
            continue
        tree = out['value']
        try:
            bad = T.validate_td(adj, tree)
        except Exception as e:
            bad = [f'result is not a tree of bags: {type(e).__name__}: {e}']
        if bad:
            kind = 'vertex-or-edge-uncovered' if any('in no bag' in b for b in bad) else ('not-a-tree' if any('tree' in b for b in bad) else 'running-intersection')
            viols.append(C.viol(f'td-invalid:{m}:{kind}', f'{m}: ' + '; '.join(bad[:4]), graph=show(adj), context=ctx,
                                observed={str(sorted(map(str, b))): [sorted(map(str, c)) for c in tree[b]] for b in tree}))
            continue
        w = T.td_width(tree)
        widths[m] = w
        if n > 0 and m in ('acb', 'quickbb') and w != tw:
            viols.append(C.viol(f'td-not-optimal:{m}', f'{m} width {w} != treewidth {tw}', graph=show(adj), context=ctx))
        if n > 0 and w < tw:
            viols.append(C.viol(f'td-width-below-treewidth:{m}', f'{m} width {w} < treewidth {tw}', graph=show(adj), context=ctx))
    # helpers
    out = C.call(F.min_fill, {v: set(adj[v]) for v in adj})
    if out['ok'] and n > 0 and out['value'][0] > tw:
        counters['graphs_where_min_fill_is_suboptimal'] = counters.get('graphs_where_min_fill_is_suboptimal', 0) + 1
    if not out['ok']:
        viols.append(C.viol(f"min_fill-exception:{out['exc_type']}", out['exc'], graph=show(adj), context=ctx, traceback=out['tb']))
    else:
        dmax, order = out['value']
        ow = T.order_width(adj, order)
        if ow is None:
            viols.append(C.viol('min_fill-order-not-permutation', f'order {order}', graph=show(adj), context=ctx))
        elif n > 0 and ow != dmax:
            viols.append(C.viol('min_fill-reports-wrong-width', f'reports {dmax}, its order has width {ow}', graph=show(adj), context=ctx))
        if n > 0 and dmax < tw:
            viols.append(C.viol('upper-bound-below-treewidth', f'min_fill {dmax} < treewidth {tw}', graph=show(adj), context=ctx))
        if n > 0 and 'min_fill' in widths and widths['min_fill'] != dmax:
            viols.append(C.viol('min_fill-td-width-differs', f"decomposition width {widths['min_fill']} != reported {dmax}", graph=show(adj), context=ctx))
    out = C.call(F.minor_min_width, {v: set(adj[v]) for v in adj})
    if not out['ok']:
        viols.append(C.viol(f"minor_min_width-exception:{out['exc_type']}", out['exc'], graph=show(adj), context=ctx, traceback=out['tb']))
    elif n > 0 and out['value'] > tw:
        viols.append(C.viol('lower-bound-above-treewidth', f"minor_min_width {out['value']} > treewidth {tw}", graph=show(adj), context=ctx))
    out = C.call(F.quickbb, {v: set(adj[v]) for v in adj})
    if not out['ok']:
        viols.append(C.viol(f"quickbb-exception:{out['exc_type']}", out['exc'], graph=show(adj), context=ctx, traceback=out['tb']))
    elif n > 0:
        ub, order = out['value']
        ow = T.order_width(adj, order)
        if ub != tw:
            viols.append(C.viol('quickbb-not-optimal', f'quickbb reports {ub}, treewidth {tw}', graph=show(adj), context=ctx))
        if ow is None or ow != ub:
            viols.append(C.viol('quickbb-order-width', f'quickbb reports {ub}, its order has width {ow}', graph=show(adj), context=ctx))
    return tw


def show(adj):
    return {str(v): sorted(map(str, adj[v])) for v in adj}


def primer(adj):
    """a different graph with the same vertex names and the same number of edges, as dense as possible
    (clique first): run just before adj, it exposes any state that an implementation keeps between calls
    under a cheap fingerprint (vertex set, edge count, degree sum) -- a result must depend on the graph only"""
    vs = list(adj)
    n = len(vs)
    m = sum(len(adj[v]) for v in adj) // 2
    out = {v: set() for v in vs}
    k = max([k for k in range(n + 1) if k * (k - 1) // 2 + (n - k if k else 0) <= m] or [0])
    # a clique on the first k vertices, every other vertex pendant on it (an isolated vertex would end
    # minor-min-width style bounds at once), the remaining edges in lexicographic order
    want = [(a, b) for a, b in itertools.combinations(range(k), 2)] + [(0, r) for r in range(k, n) if k]
    want += [ab for ab in sorted(itertools.combinations(range(n), 2), key=lambda ab: (ab[1], ab[0])) if ab not in set(want)]
    for a, b in want[:m]:
        out[vs[a]].add(vs[b])
        out[vs[b]].add(vs[a])
    return out


def run_case(tier, seed, index, spec=None, history=None):
    env.setup()
    F = env.mod('fggs.factorize')
    viols, keys, counters = [], [], {}
    evals = 0
    feats = set()
    nrand = 120 if tier == 'quick' else 40000
    nfam = 60 if tier == 'quick' else 6000
    if spec is not None:
        adj = {k: set(v) for k, v in spec.items()}
        for h in (history or []):
            judge(F, {k: set(v) for k, v in h.items()}, [], dict(replay=True, history=True), counters)
        judge(F, adj, viols, dict(replay=True), counters)
        return dict(cls='replay', verdict='violated' if viols else 'held', violations=viols, key='replay')
    if index < EX_CHUNKS:
        cls = 'exhaustive<=5'
        rng = G.rng_for(seed, 'C10e', index)
        for j, (n, code, adj) in enumerate(all_graphs_upto5()):
            if j % EX_CHUNKS != index:
                continue
            judge(F, present(rng, adj, shuffle=(j % 2 == 1)), viols, dict(n=n, code=code), counters)
            evals += 1
            if n >= 3 and code:
                keys.append(f'E{n}.{code}')
            if any(not adj[v] for v in adj) and code:
                feats.add('isolated-vertex-with-other-edges')
        sample = dict(block='all labelled graphs on <=5 vertices', chunk=index, last=show(adj))
    elif index < EX_CHUNKS + nrand:
        cls = 'random'
        rng = G.rng_for(seed, 'C10r', tier, index)
        nmax = 9 if tier == 'quick' else 11
        for j in range(6):
            n = rng.randint(4, nmax)
            p = rng.choice([0.15, 0.25, 0.4, 0.6])
            names = [rng.choice([i, f'v{i}', (i, 'z')]) for i in range(n)]
            adj = {names[i]: set() for i in range(n)}
            iso = set(rng.sample(range(n), rng.choice([0, 1, 1, 2])))
            half = rng.random() < 0.3        # two components
            for a, b in itertools.combinations(range(n), 2):
                if a in iso or b in iso:
                    continue
                if half and (a < n // 2) != (b < n // 2):
                    continue
                if rng.random() < p:
                    adj[names[a]].add(names[b])
                    adj[names[b]].add(names[a])
            g = present(rng, adj)
            judge(F, g, viols, dict(index=index, j=j), counters)
            evals += 1
            keys.append(C.hkey(show(g)))
            if iso:
                feats.add('isolated-vertex-with-other-edges')
            if half:
                feats.add('several-components')
        sample = dict(block='random G(n,p)', n=n, p=p, graph=show(adj))
    elif index >= EX_CHUNKS + nrand + nfam:
        # graphs (found offline) on which the min_fill upper bound is not the treewidth, so that
        # quickbb's branch and bound has to improve on its initial incumbent
        cls = 'minfill-suboptimal-corpus'
        k = index - (EX_CHUNKS + nrand + nfam)
        rng = G.rng_for(seed, 'C10c', tier, index)
        gs = corpus()
        ncase = 6 if tier == 'quick' else N_CORPUS
        for j, gspec in enumerate(gs):
            if j % ncase != k:
                continue
            if tier == 'quick' and len(keys) >= 14:
                break
            adj = {int(v): set(ns) for v, ns in gspec['adj'].items()}
            # history: a dense graph on the same vertex names with the same edge count first, then this one (before any other call on it in this process)
            # (vertex names private to this pair, so that nothing run earlier in this process shares them)
            hadj = {(v, f'h{j}'): {(u, f'h{j}') for u in adj[v]} for v in adj}
            pr = primer(hadj)
            judge(F, pr, viols, dict(corpus=j, primer=True), counters)
            nv = len(viols)
            judge(F, hadj, viols, dict(corpus=j, after_primer=True), counters)
            for v in viols[nv:]:
                v['sig'] += ':after-same-fingerprint-graph'
                v['history'] = [show(pr)]
            counters['history_pairs'] = counters.get('history_pairs', 0) + 1
            evals += 2
            keys.append(f'K{j}h')
            judge(F, adj, viols, dict(corpus=j), counters)                      # canonical order: as found
            evals += 1
            keys.append(f'K{j}')
            if seed or tier == 'thorough':
                judge(F, present(rng, adj), viols, dict(corpus=j, shuffled=True), counters)
                evals += 1
                keys.append(f'K{j}s{seed}')
        feats.add('minfill-suboptimal')
        sample = dict(block='corpus of graphs with min_fill > treewidth', last=show(adj))
    else:
        cls = 'families'
        rng = G.rng_for(seed, 'C10f', tier, index)
        for name, adj in families(rng):
            for rep in range(2):
                g = present(rng, adj)
                if len(g) <= 12:
                    judge(F, g, viols, dict(family=name), counters)
                    evals += 1
                    keys.append(C.hkey([name, show(g), list(map(str, g))]))
            feats.add('family-' + name)
        sample = dict(block='named families', last=name, graph=show(adj))
    return dict(cls=cls, features=sorted(feats), verdict='violated' if viols else 'held', evals=evals, keys=keys,
                nontrivial=bool(keys), key=f'{cls}{index}', violations=viols, sample=sample, obs=counters)


def replay(rep):
    if rep.get('graph'):
        return run_case(rep['tier'], rep['seed'], rep['index'], spec=rep['graph'], history=rep.get('history'))
    return run_case(rep['tier'], rep['seed'], rep['index'])


def finalize(tot, tier, seed):
    inc = []
    if tot['obs'].get('graphs_where_min_fill_is_suboptimal', 0) == 0:
        inc.append('no graph on which min_fill is suboptimal was run: quickbb search never had to improve its incumbent')
    if tot['obs'].get('history_pairs', 0) == 0:
        inc.append('no (dense same-fingerprint graph, then min_fill-suboptimal graph) call sequence was run')
    for c in ('exhaustive<=5', 'random', 'families', 'minfill-suboptimal-corpus'):
        if tot['classes'].get(c, 0) == 0:
            inc.append(f'class {c} not run')
    for f in ('isolated-vertex-with-other-edges', 'several-components'):
        if tot['features'].get(f, 0) == 0:
            inc.append(f'feature {f} never generated')
    ex = not tot['cut_short'] and tot['classes'].get('exhaustive<=5', 0) == EX_CHUNKS
    return dict(exhaustive=bool(ex), exhaustive_bound='all 1100 labelled simple graphs on <=5 vertices x 3 methods + helpers; larger graphs sampled',
                methods=list(METHODS)), inc
