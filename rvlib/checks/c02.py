"""C02 — sum-product of a recursive FGG is the least fixed point, or says otherwise.

(a) boundary monitor on sum_product vs the Kleene limit computed by the dense reference evaluator
    (exact in Bool, 1e-9 in Viterbi, tol-dependent bound from the Jacobian at the fixed point in
    Real/Log);
(b) trace monitor: hooks on fixed_point / newton / MultiTensor.shouldStop / warnings.warn record,
    per solver activation, the stopping verdicts and the warnings; offline rule: a solver that
    returns with its last verdict False (or with no verdict at all) must have warned;
(c) method='linear' raises ValueError exactly on grammars that are not linearly recursive."""
import math, warnings as _warnings
from . import common as C
from ..core import env
from ..gen import fggspec as G
from ..oracle import sumproduct_ref as R
from ..monitor.hooks import Hooks

PROPERTY = 'C02'
RULE = ('case = one generated recursive FGG spec (classes linear / nonlinear / mixed / unit-cycle; weights rescaled until the reference '
        'Kleene iteration converges with spectral radius <= 0.9), run under 4 semirings x {fixed-point, newton, linear} x tol in '
        '{1e-4,1e-8,1e-12} and under iteration budgets kmax in {0,1,2,5}; evaluations = specs; non-trivial = the start value is non-zero and '
        'the reference needed >= 3 Kleene iterations; distinct = distinct spec hashes')
ASSUMPTIONS = ['reference: dense float64 Kleene iteration from zero to a relative change <= 1e-15 (Real/Log) or exact stationarity (Viterbi/Bool)',
               'Real/Log error bound: 10 * ||(I-J)^-1||_inf * tol + 1e-9*|Z| with J the Jacobian at the fixed point; cases with spectral radius > 0.9 or amplification > 1e3 are declined',
               'Viterbi: log-weights on a 0.25 grid with the default tol, or arbitrary weights with tol=1e-12',
               'unit-cycle class (cycles of weight exactly one) only in the idempotent semirings, where the sum-product is finite']
TOLS = (1e-4, 1e-8, 1e-12)
CLASSES = ('linear', 'nonlinear', 'mixed', 'unitcycle')


def plan(tier, seed):
    return dict(n=240 if tier == 'quick' else 16000, budget_s=150 if tier == 'quick' else 900, case_timeout=200)


def gen(tier, seed, index):
    rng = G.rng_for(seed, 'C02', tier, index)
    cls = CLASSES[index % len(CLASSES)]
    grid = (index // len(CLASSES)) % 2 == 0
    forced = [G.FORCED[(index // 8) % len(G.FORCED)]]
    if 'inf-weight' in forced:
        forced = ['plain']
    if cls == 'unitcycle' and (index // 4) % 2 == 1:
        # sparse transition tables with cycles of weight exactly one: reachability needs several iterations
        return G.gen_zero_cycle_spec(rng), dict(cls=cls, grid=True, forced=['zero-weight-cycle-in-factor'])
    if index % 20 == 13:
        # a component entered through one member while another member is the only user of an outside nonterminal
        return G.gen_private_dependency_spec(rng, wdomain='log' if grid else 'real'), dict(cls='mixed', grid=grid, forced=['scc-member-with-private-dependency'])
    if index % 20 == 9:
        return G.gen_chain_spec(rng, wdomain='log' if grid else 'real'), dict(cls='linear', grid=grid, forced=['long-chain'])
    if index % 20 == 3:
        # matrix closure with a sparsely patterned base factor: successive iterates change the size of their storage
        return G.gen_matrix_closure_spec(rng), dict(cls='linear', grid=False, forced=['patterned-base-dense-recursion'], typed=True)
    if index % 10 == 7 and cls != 'unitcycle' or index % 20 == 14:
        # patterned (sparse) factor weights: the iterates' sparsity patterns then change size between iterations
        spec = G.gen_spec(rng, cls, [f for f in forced if f not in ('zero-weight',)], wdomain='real', grid=False, allow_inf=False, max_nodes=4, typed=True)
        return spec, dict(cls=cls, grid=False, forced=forced + ['patterned-weights'], typed=True)
    big_scc = (index // 16) % 2 == 1        # SCCs of 3-5 mutually recursive nonterminals with chords
    if index % 11 == 5:
        forced = ['unproductive-nt']
    spec = G.gen_spec(rng, cls, forced, wdomain='log' if grid else 'real', grid=grid, allow_inf=False,
                      max_nodes=5 if tier == 'thorough' else 4, max_scc=5 if big_scc else 3, max_nts=5 if big_scc else 4,
                      max_dom=2 if big_scc else 3)
    return spec, dict(cls=cls, grid=grid, forced=forced)


def condition(spec, cls):
    """rescale until the real-semiring reference converges with rho <= 0.9; returns (ref_real, info) or (None, reason)"""
    if cls == 'unitcycle':
        return None, dict(reason='unit-cycle: real sum-product not required finite')
    for attempt in range(6):
        ref, info = R.reference_tables(spec, 'real', max_iter=4000)
        if ref is not None and info.get('rho', 0) <= 0.9:
            return ref, info
        G.scale_recursive(spec, 0.5)
        if 'patterns' in spec:
            from .c03 import rescale_patterns
            rescale_patterns(spec, 0.5)
    return None, dict(reason='not-conditioned')


def amplification(spec, ref_real):
    """|| (I-J)^-1 ||_inf and the relative version for the log semiring"""
    import torch, numpy as np
    d = R.Dense(spec, 'real')
    x = {n: torch.tensor(v, dtype=torch.float64).reshape(G.shape_of(spec, spec['nonterminals'][n])) for n, v in ref_real.items()}
    nts = [n for n in d.nts if x[n].numel()]
    if not nts:
        return 1.0, 1.0
    v0 = torch.cat([x[n].reshape(-1) for n in nts])

    def f(v):
        xs, o = {}, 0
        for n in nts:
            s = x[n].numel()
            xs[n] = v[o:o + s].view(x[n].shape)
            o += s
        for n in d.nts:
            xs.setdefault(n, x[n])
        y = d.F(xs)
        return torch.cat([y[n].reshape(-1) for n in nts])
    J = torch.autograd.functional.jacobian(f, v0).numpy()
    try:
        M = np.linalg.inv(np.eye(len(J)) - J)
    except Exception:
        return math.inf, math.inf
    amp = float(np.abs(M).sum(axis=1).max())
    xv = v0.numpy()
    pos = xv > 0
    if pos.any():
        rel = float(((np.abs(M) @ xv)[pos] / xv[pos]).max())
    else:
        rel = 1.0
    return amp, rel


class Trace:
    """per-solver-activation events"""

    def __init__(self, h, SP, MULTI):
        self.events = []
        self.stack = []
        self.comp_methods = []
        t = self

        def solver(name):
            def make(orig):
                def w(*a, **k):
                    ev = dict(solver=name, kmax=k.get('kmax'), tol=k.get('tol'), stops=[], warnings=[], returned=False)
                    t.stack.append(ev)
                    h.hit(name)
                    try:
                        r = orig(*a, **k)
                        ev['returned'] = True
                        return r
                    finally:
                        t.stack.pop()
                        t.events.append(ev)
                return w
            return make
        h.wrap(SP, 'fixed_point', solver('fixed_point'), key='fixed_point')
        h.wrap(SP, 'newton', solver('newton'), key='newton')
        h.wrap(SP, 'linear', solver('linear'), key='linear')

        def mk_stop(orig):
            def w(self_, other, tol):
                r = orig(self_, other, tol)
                h.hit('shouldStop')
                if t.stack:
                    t.stack[-1]['stops'].append(bool(r))
                return r
            return w
        h.wrap(MULTI.MultiTensor, 'shouldStop', mk_stop, key='shouldStop')

        def mk_warn(orig):
            def w(message, *a, **k):
                if t.stack:
                    t.stack[-1]['warnings'].append(str(message))
                return orig(message, *a, **k)
            return w
        h.wrap(_warnings, 'warn', mk_warn, key='warnings.warn')

        def on_fwd(a, k):
            t.comp_methods.append(a[2].get('method') if len(a) > 2 and isinstance(a[2], dict) else '?')
        h.spy(SP.SumProduct, 'forward', on_call=on_fwd, key='SumProduct.forward', static=True)

    def reset(self):
        self.events.clear()
        self.comp_methods.clear()


def check_spec(spec, meta, tier, index):
    import torch
    fggs = env.setup()
    SP = env.mod('fggs.sum_product')
    MULTI = env.mod('fggs.multi')
    viols = []
    obs = dict(library_calls=0, value_comparisons=0, warned_runs=0, solver_activations=0, budget_runs=0, linear_valueerror_expected=0,
               linear_ok_expected=0, iterations_observed=0)
    cls = meta['cls']
    ref_real, cinfo = condition(spec, cls)
    if ref_real is None and cls != 'unitcycle':
        return dict(verdict='declined', violations=[], obs=obs, nontrivial=False, info=cinfo)
    linear_ok = G.is_linear(spec)
    refs = {}
    infos = {}
    semis = ('viterbi', 'bool') if cls == 'unitcycle' else ('real', 'log', 'viterbi', 'bool')
    for S in semis:
        if S == 'real':
            refs[S], infos[S] = ref_real, cinfo
        else:
            refs[S], infos[S] = R.reference_tables(spec, S)
    if any(refs[S] is None for S in semis):
        return dict(verdict='declined', violations=[], obs=obs, nontrivial=False, info=dict(reason='reference declined', infos=infos))
    amp, amp_rel = (1.0, 1.0)
    if cls != 'unitcycle':
        amp, amp_rel = amplification(spec, ref_real)
        if not (amp <= 1e3 and amp_rel <= 1e3):
            return dict(verdict='declined', violations=[], obs=obs, nontrivial=False, info=dict(reason='ill-conditioned', amp=amp))
    start = spec['start']
    shape = G.shape_of(spec, spec['nonterminals'][start])
    nontrivial = False
    reweighted = None
    if index % 3 == 0 and cls != 'unitcycle' and not meta.get('typed'):
        import copy as _copy
        spec2 = _copy.deepcopy(spec)
        shrink = (lambda x: x * 0.5) if spec['wdomain'] == 'real' else (lambda x: x + math.log(0.5) if x > -math.inf else x)
        for t in spec2['terminals']:
            spec2['weights'][t] = G.map_nested(spec2['weights'][t], shrink)
        reweighted = dict(spec=spec2)
        for S in semis:
            reweighted[S], _inf = R.reference_tables(spec2, S)
            if reweighted[S] is None:
                reweighted = None
                break
    with Hooks() as h:
        tr = Trace(h, SP, MULTI)
        for S in semis:
            exp = torch.tensor(refs[S][start], dtype=torch.bool if S == 'bool' else torch.float64).reshape(shape)
            if S == 'real' and (exp != 0).any() and cinfo.get('iterations', 0) >= 3:
                nontrivial = True
            if S in ('viterbi', 'bool') and cls == 'unitcycle' and bool((exp != (False if S == 'bool' else -math.inf)).any()):
                nontrivial = True
            for mi, method in enumerate(('fixed-point', 'newton', 'linear')):
                tol = TOLS[(index + mi) % 3]
                if S == 'viterbi':
                    tol = 1e-6 if meta['grid'] else 1e-12
                runs = [dict(tol=tol, kmax=5000, budget=False)]
                if method != 'linear' and (index + mi) % 2 == 0:
                    runs.append(dict(tol=tol if S != 'bool' else 0, kmax=[0, 1, 2, 5][(index // 2 + mi) % 4], budget=True))
                for run in runs:
                    builder = G.pattern_weight_builder(fggs, spec, S) if meta.get('typed') else None
                    fgg, binfo = G.build_fgg(fggs, spec, S, torch.float64, weight_builder=builder)
                    sr = G.make_semiring(fggs, S, torch.float64)
                    tr.reset()
                    out = C.call(lambda: fggs.sum_product(fgg, method=method, semiring=sr, tol=run['tol'], kmax=run['kmax']).to_dense())
                    obs['library_calls'] += 1
                    ctx = dict(semiring=S, method=method, tol=run['tol'], kmax=run['kmax'], cls=cls, linear_spec=linear_ok)
                    events = [dict(e) for e in tr.events]
                    obs['solver_activations'] += len(events)
                    obs['iterations_observed'] += sum(len(e['stops']) for e in events)
                    for m_ in tr.comp_methods:
                        obs['scc_method_' + str(m_)] = obs.get('scc_method_' + str(m_), 0) + 1
                    # (c) linear-recursion contract
                    if method == 'linear':
                        if not linear_ok:
                            obs['linear_valueerror_expected'] += 1
                            if out['ok']:
                                viols.append(C.viol('linear-accepts-nonlinear', f'method="linear" returned {C.short(out["value"].tolist())} on a grammar that is not linearly recursive', context=ctx))
                            elif out['exc_type'] != 'ValueError':
                                viols.append(C.viol(f"linear-wrong-exception:{out['exc_type']}", f'expected ValueError, got {out["exc"]}', context=ctx, traceback=out['tb']))
                            continue
                        obs['linear_ok_expected'] += 1
                    if not out['ok']:
                        viols.append(C.viol(f"exception:{S}:{method}:{out['exc_type']}:{out.get('where', '')}", f'sum_product raised {out["exc"]}', context=ctx, traceback=out['tb']))
                        continue
                    # (b) exhausted budget => warning
                    # The property is about what the caller observes: *some* warning during the call.  Where in
                    # the library it is issued (inside the solver, or once per call) and its wording are
                    # implementation choices, so the trace only tells us *that* a budget ran out.
                    warned = len(out['warnings']) > 0
                    exhausted = [e for e in events if e['solver'] in ('fixed_point', 'newton') and e['returned']
                                 and not (e['stops'][-1] if e['stops'] else False)]
                    if exhausted and not warned:
                        e = exhausted[0]
                        viols.append(C.viol(f"budget-exhausted-silently:{e['solver']}",
                                            f"{e['solver']} returned after {len(e['stops'])} stopping tests (last verdict False, kmax={e['kmax']}) and the call emitted no warning",
                                            context=ctx, trace=events))
                    if run['budget']:
                        obs['budget_runs'] += 1
                    if warned:
                        obs['warned_runs'] += 1
                        if not run['budget']:
                            # the specs are conditioned to spectral radius <= 0.9 (plain iteration needs a few hundred steps at
                            # most, the idempotent semirings finitely many) and the values are far from where rounding could
                            # keep the change above tol: with kmax = 5000 the stopping criterion has to be met, a method that
                            # "exhausts its budget" here is not converging
                            scale = float(exp.abs().max()) if (S not in ('bool',) and exp.numel() and torch.isfinite(exp).any()) else 0.0
                            finite = exp[torch.isfinite(exp)] if S != 'bool' else exp
                            scale = float(finite.abs().max()) if (S != 'bool' and finite.numel()) else 0.0
                            if scale < 1e3:
                                viols.append(C.viol(f'full-budget-exhausted:{S}:{method}', f'kmax={run["kmax"]} iterations were not enough on a grammar of spectral radius {cinfo.get("rho") if isinstance(cinfo, dict) else None}: warnings {out["warnings"][:1]}', context=ctx, trace=events[:3]))
                        continue          # an unconverged value is allowed once the caller has been warned
                    # (a) value
                    z = out['value']
                    obs['value_comparisons'] += 1
                    if not run['budget']:
                        obs['value_comparisons_full_budget:' + method] = obs.get('value_comparisons_full_budget:' + method, 0) + 1
                    if S == 'bool':
                        msg = C.close_tensor(z, exp, 'bool')
                    elif S == 'viterbi':
                        msg = C.close_tensor(z, exp, 'float64', rtol=1e-9, atol=1e-9)
                    elif S == 'real':
                        bound = 10 * amp * run['tol']
                        msg = C.close_tensor(z, exp, 'float64', rtol=1e-9, atol=bound + 1e-12)
                        # a truly zero entry can never become positive (iteration from below); the converse
                        # (a value below the tol-dependent bound still reported as 0) is within the stated error
                        # (plain iteration only: the direct solves inside newton / linear leave rounding noise of the
                        # order of 1e-16 x the largest entry at exactly-zero positions, which is "up to rounding")
                        noise = 0.0 if method == 'fixed-point' else 1e-12 * max(1.0, float(exp.abs().max()) if exp.numel() else 0.0)
                        if msg is None and bool(((exp == 0) & (z.abs() > noise)).any()):
                            msg = f'support differs: obs={z.tolist()} exp={exp.tolist()}'
                    else:
                        bound = 10 * amp_rel * run['tol']
                        msg = C.close_tensor(z, exp, 'float64', rtol=1e-9, atol=bound + 1e-12)
                    if msg:
                        kind = 'infinite' if 'infinite entries' in msg else 'value'
                        viols.append(C.viol(f'{kind}:{S}:{method}', msg, context=dict(ctx, amplification=amp, reference=infos.get(S)), trace=events[:6]))
                    elif reweighted is not None and not run['budget'] and S in reweighted and not meta.get('typed'):
                        # the same grammar object with smaller weights put in place (FiniteFactor.weights setter) and solved
                        # again: the answer is the least fixed point of the NEW weights, whatever the previous call left behind
                        spec2, refs2 = reweighted['spec'], reweighted
                        inplace = (index + mi) % 2 == 0         # edit the stored tensor in place, or put a new tensor in place
                        for t in spec2['terminals']:
                            neww = torch.tensor(G.weights_in(spec2, t, S), dtype=torch.bool if S == 'bool' else torch.float64)
                            fac = fgg.factors[binfo['el'][t].name]
                            if inplace and tuple(fac.weights.physical.shape) == tuple(neww.shape):
                                fac.weights.physical.copy_(neww)
                            else:
                                fac.weights = neww
                        obs['reweighted_in_place' if inplace else 'reweighted_by_setter'] = obs.get('reweighted_in_place' if inplace else 'reweighted_by_setter', 0) + 1
                        o2 = C.call(lambda: fggs.sum_product(fgg, method=method, semiring=sr, tol=run['tol'], kmax=run['kmax']).to_dense())
                        obs['reweighted_runs'] = obs.get('reweighted_runs', 0) + 1
                        exp2 = torch.tensor(refs2[S][start], dtype=torch.bool if S == 'bool' else torch.float64).reshape(shape)
                        if not o2['ok']:
                            viols.append(C.viol(f"exception:reweighted:{S}:{method}:{o2['exc_type']}", f'second call after changing the weights raised {o2["exc"]}', context=ctx))
                        elif not o2['warnings']:
                            if S == 'bool':
                                m2 = C.close_tensor(o2['value'], exp2, 'bool')
                            elif S == 'viterbi':
                                m2 = C.close_tensor(o2['value'], exp2, 'float64', rtol=1e-9, atol=1e-9)
                            else:
                                m2 = C.close_tensor(o2['value'], exp2, 'float64', rtol=1e-9, atol=10 * (amp if S == 'real' else amp_rel) * run['tol'] + 1e-12)
                            if m2:
                                viols.append(C.viol(f'value:reweighted:{S}:{method}', 'after the factor weights of the same FGG object were made smaller: ' + m2, context=ctx))
        hooks = dict(h.count)
    return dict(verdict='violated' if viols else 'held', violations=viols, obs=obs, nontrivial=nontrivial, hooks=hooks, info=cinfo)


def run_case(tier, seed, index, spec=None, meta=None):
    if spec is None:
        spec, meta = gen(tier, seed, index)
    res = check_spec(spec, meta, tier, index)
    feats = sorted(G.features_of(spec)) + ['grid-weights' if meta['grid'] else 'free-weights'] + (['patterned-weights'] if meta.get('typed') else [])
    res.update(cls=meta['cls'], features=feats, key=G.spec_key(spec), sample=dict(spec=G.describe(spec), meta=meta, reference=res.pop('info', None)))
    for v in res['violations']:
        v['spec'] = spec
        v['meta'] = meta
    return res


def replay(rep):
    if 'spec' in rep:
        return run_case(rep['tier'], rep['seed'], rep['index'], rep['spec'], rep['meta'])
    return run_case(rep['tier'], rep['seed'], rep['index'])


def finalize(tot, tier, seed):
    inc = []
    for k in ('fixed_point', 'newton', 'linear', 'shouldStop', 'SumProduct.forward'):
        if tot['hooks'].get(k, 0) == 0:
            inc.append(f'hook {k} never reached')
    for k in ('value_comparisons', 'warned_runs', 'budget_runs', 'linear_valueerror_expected', 'linear_ok_expected'):
        if tot['obs'].get(k, 0) == 0:
            inc.append(f'monitor {k} never exercised')
    for m in ('fixed-point', 'newton', 'linear'):
        # a method whose every run ends in a warning is never compared: say so instead of reporting "held"
        if tot['obs'].get('value_comparisons_full_budget:' + m, 0) == 0:
            inc.append(f'method {m}: no run with the full iteration budget returned without a warning, so its values were never compared')
    for c in CLASSES:
        if tot['classes'].get(c, 0) == 0:
            inc.append(f'class {c} not run')
    for f in ('mutual-rec', 'nonlinear-rec', 'linear-rec'):
        if tot['features'].get(f, 0) == 0:
            inc.append(f'feature {f} never generated')
    return {}, inc


ALLOW_DECLINE = {}
