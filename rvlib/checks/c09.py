"""C09 — semiring linear solvers return the least solution of x = A x + b.

Boundary monitor on Semiring.solve, PatternedTensor.solve, multi_solve (both transposes) and
multi_mv; oracle = oracle/solve_ref (series definition with divergence classification);
argument-unmodified monitor (bytes + Tensor._version); hooks count LU-accepted vs Gauss-Jordan
fallback runs and the distinct elimination orders."""
import itertools, math
from . import common as C
from ..core import env
from ..gen import fggspec as G
from ..gen import types_patterns as TP
from ..oracle import axis_ref as A
from ..oracle import solve_ref as SR
from ..monitor.hooks import Hooks

PROPERTY = 'C09'
RULE = ('dense cases: n x n systems (n <= 6) with entries classed convergent (rho < 0.95), exactly one (stochastic blocks), divergent (rho > 1.05), '
        'infinite entries, in 4 semirings; block cases: every subset of present blocks for <= 3 nonterminals (2^9 structures, exhaustive over '
        'structure) and random subsets for 4, block shapes (), (2,), (2,3)/(3,), dense or patterned blocks, both transposes; '
        'evaluations = solver calls compared; non-trivial = system with >= 1 off-diagonal entry/block and a non-zero solution; distinct = system hashes')
ASSUMPTIONS = ['systems whose support has a strongly connected component with spectral radius within 5% of 1 (other than exactly stochastic ones) are declined',
               'Viterbi systems have non-positive weights except in the dedicated positive-cycle class', 'compared with rtol 1e-8 (float64); identical positions of 0/-inf and inf']
SEMI = ('real', 'log', 'viterbi', 'bool')
N_STRUCT = 512


def plan(tier, seed):
    return dict(n=N_STRUCT + 1500 if tier == 'quick' else N_STRUCT * 8 + 300000, budget_s=85 if tier == 'quick' else 840, case_timeout=120)


def conv(x, S):
    """carrier value of the real-domain number x"""
    if S == 'real':
        return x
    if S == 'bool':
        return x > 0
    return math.log(x) if 0 < x < math.inf else (-math.inf if x == 0 else math.inf)


def gen_matrix(rng, n, cls):
    """real-domain nonnegative matrix with a controlled convergence class"""
    import numpy as np
    dens = rng.choice([0.2, 0.4, 0.7])
    A = np.zeros((n, n))
    for i in range(n):
        for j in range(n):
            if rng.random() < dens:
                A[i, j] = rng.choice([0.25, 0.5, 0.125, 1.0, 0.75])
    if cls == 'convergent':
        rho = max(abs(np.linalg.eigvals(A))) if n else 0
        if rho > 0:
            A = A * (rng.choice([0.3, 0.6, 0.85]) / rho)
    elif cls == 'divergent':
        rho = max(abs(np.linalg.eigvals(A))) if n else 0
        if rho > 0:
            A = A * (rng.choice([1.5, 3.0]) / rho)
    elif cls == 'one':
        # permutation-like / stochastic: every non-empty row sums to exactly one (dyadic entries)
        A = np.zeros((n, n))
        for i in range(n):
            if rng.random() < 0.8:
                k = rng.choice([1, 2, 4])
                cols = [rng.randrange(n) for _ in range(k)]
                for c in cols:
                    A[i, c] += 1.0 / k
    elif cls == 'inf':
        rho = max(abs(np.linalg.eigvals(A))) if n else 0
        if rho > 0:
            A = A * (0.5 / rho)
        for _ in range(rng.randint(1, 2)):
            A[rng.randrange(n), rng.randrange(n)] = math.inf
    return A


def unmodified(snap, objs):
    import torch
    for (b, ver), t in zip(snap, objs):
        if not torch.equal(torch.nan_to_num(t, nan=123.0), torch.nan_to_num(b, nan=123.0)) or t._version != ver:
            return False
    return True


def critical(got, exp, S):
    """mismatch consists solely of huge finite values where the exact answer is +inf (spectral radius exactly one)"""
    import torch
    if S not in ('real', 'log'):
        return False
    try:
        e = torch.as_tensor(exp).to(torch.float64)
        g = got.to(torch.float64)
        if g.shape != e.shape:
            return False
        big = 1e10 if S == 'real' else math.log(1e10)
        bad = ~(torch.isclose(g, e, rtol=1e-8, atol=1e-10) | ((g == e)))
        return bool(bad.any()) and bool((torch.isposinf(e[bad]) & torch.isfinite(g[bad]) & (g[bad] > big)).all())
    except Exception:
        return False


def cmp(got, exp, S, dtname='float64'):
    import torch
    e = torch.as_tensor(exp)
    if S == 'bool':
        return C.close_tensor(got, e.to(torch.bool), 'bool')
    return C.close_tensor(got, e.to(torch.float64), dtname, rtol=1e-8, atol=1e-10)


def dense_case(fggs, rng, S, viols, obs, index):
    import torch, numpy as np
    I = env.mod('fggs.indices')
    n = rng.randint(1, 6)
    cls = ['convergent', 'convergent', 'one', 'divergent', 'inf'][index % 5]
    if S == 'viterbi' and cls in ('divergent', 'inf'):
        cls = 'one'
    Ar = gen_matrix(rng, n, cls)
    if S == 'viterbi':
        Ar = np.minimum(Ar, 1.0)          # non-positive log-weights
    m = rng.choice([None, 1, 3])
    Br = np.array([[rng.choice([0.0, 0.0, 0.5, 1.0, 2.0]) for _ in range(m or 1)] for _ in range(n)])
    if cls == 'inf' and rng.random() < 0.3:
        Br[rng.randrange(n), 0] = math.inf
    f = np.vectorize(lambda x: conv(x, S), otypes=[bool if S == 'bool' else float])
    Ac, Bc = f(Ar), f(Br)
    ref, info = SR.solve(Ac, Bc, S)
    ctx = dict(kind='dense', semiring=S, cls=cls, A=Ac.tolist(), b=Bc.tolist())
    if ref is None:
        return 'declined', ctx
    dtype = torch.bool if S == 'bool' else torch.float64
    sr = G.make_semiring(fggs, S, torch.float64)
    a = torch.tensor(Ac, dtype=dtype)
    b = torch.tensor(Bc if m else Bc[:, 0], dtype=dtype)
    exp = ref if m else ref[:, 0]
    snap = [(a.clone(), a._version), (b.clone(), b._version)]
    out = C.call(sr.solve, a, b)
    obs['solve_calls'] += 1
    if not out['ok']:
        viols.append(C.viol(f"exception:Semiring.solve:{S}:{out['exc_type']}:{out.get('where', '')}", f'solve raised {out["exc"]}', context=ctx, traceback=out['tb']))
    else:
        msg = cmp(out['value'], exp, S)
        if msg:
            viols.append(C.viol(f'value:Semiring.solve:{S}:{cls}' + (':huge-finite-instead-of-inf' if critical(out['value'], exp, S) else ''), msg, context=ctx))
    if not unmodified(snap, [a, b]):
        viols.append(C.viol(f'argument-modified:Semiring.solve:{S}', 'solve modified its arguments', context=ctx))
    # the same system through PatternedTensor.solve (dense patterns)
    pa, pb = I.PatternedTensor(a.clone(), default=sr.from_int(0).item()), I.PatternedTensor(b.clone(), default=sr.from_int(0).item())
    out = C.call(lambda: pa.solve(pb, sr))
    obs['solve_calls'] += 1
    if not out['ok']:
        viols.append(C.viol(f"exception:PatternedTensor.solve:{S}:{out['exc_type']}:{out.get('where', '')}", f'PatternedTensor.solve raised {out["exc"]}', context=ctx, traceback=out['tb']))
    else:
        msg = cmp(A.densify_pt(out['value']), exp, S)
        if msg:
            viols.append(C.viol(f'value:PatternedTensor.solve:{S}:{cls}' + (':huge-finite-instead-of-inf' if critical(A.densify_pt(out['value']), exp, S) else ''), msg, context=ctx))
    return cls, ctx


def patterned_solve_case(fggs, rng, S, viols, obs):
    """PatternedTensor.solve with typed sparsity patterns on both operands"""
    import torch, numpy as np
    I = env.mod('fggs.indices')
    T = TP.gen_type(rng, 2, 6)
    sp_ = 0.6
    if rng.random() < 0.5:
        # index sets made of unit summands: patterns select single elements / shifted blocks, so the
        # support of the solution has to grow over several applications of a
        U = lambda k: ('sum', tuple(('atom', 1) for _ in range(k)))
        T = ('prod', (U(rng.choice([2, 3])), U(2))) if rng.random() < 0.7 else U(rng.choice([3, 4]))
        sp_ = 0.95
    n = TP.t_numel(T)
    dtype = torch.bool if S == 'bool' else torch.float64
    sr = G.make_semiring(fggs, S, torch.float64)
    zero = sr.from_int(0).item()
    scale = rng.choice([0.1, 0.2])
    vals = [0.0, 0.0, 1.0 * scale, 2.0 * scale, 0.5 * scale]
    # the matrix's default need not be the semiring zero (a small value everywhere off the pattern)
    a_default = zero if rng.random() < 0.7 else conv(rng.choice([0.02, 0.05]) / max(1, n), S)
    pa = TP.gen_pattern(rng, [T, T], lambda: conv(rng.choice(vals), S), a_default, structure_p=sp_, share_p=0.5)
    shift = rng.random() < 0.35
    if shift:
        # "shift" matrices over a product index set {0..k-1}^m: a physical axis sits at different factor
        # positions of the row and the column index, the other positions are constants, b is (almost) one-hot;
        # the support of the solution then has to grow over several applications of a
        k, m = rng.choice([2, 2, 3]), rng.choice([2, 2, 3])
        T = ('prod', tuple(('sum', tuple(('atom', 1) for _ in range(k))) for _ in range(m)))
        n = k ** m
        const = lambda c: {'before': c, 'term': [], 'after': k - 1 - c}
        i, j = rng.sample(range(m), 2)
        row = [const(rng.randrange(k)) for _ in range(m)]
        col = [const(rng.randrange(k)) for _ in range(m)]
        row[i], col[j] = 0, 0
        psz = [k]
        if m == 3 and rng.random() < 0.5:
            l = next(x for x in range(m) if x not in (i, j))
            row[l], col[l] = 1, 1           # a second axis shared in place
            psz = [k, k]
        vals_ = [1.0 * scale * 3, 2.0 * scale * 3, 0.5]
        pa = dict(psizes=psz, vaxes=[row, col], default=a_default, physical=TP._nested(psz, lambda: conv(rng.choice(vals_), S)), expand=[])
        bfac = [const(rng.randrange(k)) for _ in range(m)]
        if rng.random() < 0.5:
            bfac = [f if not isinstance(f, int) else const(rng.randrange(k)) for f in col]   # b lives where the columns of a can read it
        pb_ = dict(psizes=[], vaxes=[bfac], default=zero if rng.random() < 0.9 else conv(0.5, S), physical=conv(rng.choice([1.0, 2.0]), S), expand=[])
    extra = [TP.gen_type(rng, 1, 3)] if rng.random() < 0.4 else []
    pb = TP.gen_pattern(rng, [T] + extra, lambda: conv(rng.choice([0.0, 1.0, 0.5, 2.0]), S), zero if rng.random() < 0.8 else conv(0.5, S), structure_p=sp_)
    if shift:
        pb = pb_
    a = TP.realise(I, pa, dtype)
    b, _ = TP.realise_sharing(I, rng, pb, dtype, a)
    da = torch.tensor(A.densify(pa)[0], dtype=dtype).reshape(A.shape_of(pa))
    db = torch.tensor(A.densify(pb)[0], dtype=dtype).reshape(A.shape_of(pb))
    Ac = da.numpy()
    Bc = db.reshape(n, -1).numpy()
    ref, info = SR.solve(Ac, Bc, S)
    ctx = dict(kind='patterned', semiring=S, a=TP.depict(pa), b=TP.depict(pb), specs=[pa, pb])
    if ref is None:
        return 'declined'
    sa = (a.physical.clone(), a.physical._version)
    sb = (b.physical.clone(), b.physical._version)
    out = C.call(lambda: a.solve(b, sr))
    obs['solve_calls'] += 1
    obs['patterned_solve_calls'] += 1
    if not out['ok']:
        viols.append(C.viol(f"exception:PatternedTensor.solve:{S}:{out['exc_type']}:{out.get('where', '')}", f'PatternedTensor.solve raised {out["exc"]}', context=ctx, traceback=out['tb']))
    else:
        inv = A.check_invariant(out['value'])
        if inv:
            viols.append(C.viol('invariant:PatternedTensor.solve', inv, context=ctx))
        else:
            msg = cmp(A.densify_pt(out['value']).reshape(n, -1), ref, S)
            if msg:
                viols.append(C.viol(f'value:PatternedTensor.solve:{S}:patterned' + (':huge-finite-instead-of-inf' if critical(A.densify_pt(out['value']).reshape(n, -1), ref, S) else ''), msg, context=ctx))
    if not unmodified([sa, sb], [a.physical, b.physical]):
        viols.append(C.viol(f'argument-modified:PatternedTensor.solve:{S}', 'PatternedTensor.solve modified its arguments', context=ctx))
    return 'patterned'


def block_case(fggs, rng, S, struct, nkeys, patterned, viols, obs, hooks_sets):
    """multi_solve / multi_mv on a block system; struct = set of present (i,j) blocks"""
    import torch, numpy as np
    I = env.mod('fggs.indices')
    M = env.mod('fggs.multi')
    sr = G.make_semiring(fggs, S, torch.float64)
    dtype = torch.bool if S == 'bool' else torch.float64
    zero = sr.from_int(0).item()
    keys = ['X', 'Y', 'Z', 'W'][:nkeys]
    shapes_t = {}
    for k in keys:
        nd = rng.choice([0, 1, 1, 2])
        ts = [TP.gen_type(rng, 1, 3 if nd == 2 else 4) for _ in range(nd)]
        shapes_t[k] = ts
    shapes = {k: torch.Size([TP.t_numel(T) for T in ts]) for k, ts in shapes_t.items()}
    sizes = {k: int(math.prod(shapes[k])) for k in keys}
    off = {}
    o = 0
    for k in keys:
        off[k] = o
        o += sizes[k]
    N = o
    Afull = np.zeros((N, N))
    scale = rng.choice([0.08, 0.15, 0.3])
    cls = rng.choice(['convergent', 'convergent', 'convergent', 'one'])
    a = M.MultiTensor((shapes, shapes), sr)
    specs = {}
    for (i, j) in struct:
        x, y = keys[i], keys[j]
        if cls == 'one' and sizes[x] == sizes[y] and rng.random() < 0.5 and not patterned:
            blk = np.eye(sizes[x])[rng.sample(range(sizes[x]), sizes[x])]       # permutation block
            t = torch.tensor(np.vectorize(lambda v: conv(v, S), otypes=[bool if S == 'bool' else float])(blk), dtype=dtype).reshape(shapes[x] + shapes[y])
            a[x, y] = I.PatternedTensor(t, default=zero)
            Afull[off[x]:off[x] + sizes[x], off[y]:off[y] + sizes[y]] = blk
            continue
        vals = [0.0, scale, 2 * scale, 0.5 * scale]
        ps = TP.gen_pattern(rng, shapes_t[x] + shapes_t[y], lambda: conv(rng.choice(vals), S), zero,
                            structure_p=0.6 if patterned else 0.0, share_p=0.3 if patterned else 0.0, expand_p=0.1 if patterned else 0.0)
        a[x, y] = TP.realise(I, ps, dtype)
        specs[f'{x}{y}'] = TP.depict(ps)
        d = np.array(A.densify(ps)[0], dtype=float if S != 'bool' else bool).reshape(sizes[x], sizes[y])
        if S in ('log', 'viterbi'):
            with np.errstate(over='ignore'):
                d = np.exp(d)
        Afull[off[x]:off[x] + sizes[x], off[y]:off[y] + sizes[y]] = d
    b = M.MultiTensor((shapes,), sr)
    bfull = np.zeros(N)
    for k in keys:
        if rng.random() < 0.7:
            ps = TP.gen_pattern(rng, shapes_t[k], lambda: conv(rng.choice([0.0, 1.0, 0.5, 2.0]), S), zero, structure_p=0.5 if patterned else 0.0)
            b[k] = TP.realise(I, ps, dtype)
            d = np.array(A.densify(ps)[0], dtype=float if S != 'bool' else bool).reshape(sizes[k])
            if S in ('log', 'viterbi'):
                with np.errstate(over='ignore'):
                    d = np.exp(d)
            bfull[off[k]:off[k] + sizes[k]] = d
    ctx = dict(kind='block', semiring=S, keys=keys, shapes={k: list(v) for k, v in shapes.items()}, present=sorted(f'{keys[i]}{keys[j]}' for i, j in struct),
               b_present=sorted(b.keys()), patterns=specs, A=Afull.tolist(), b=bfull.tolist(), cls=cls)
    f = np.vectorize(lambda v: conv(v, S), otypes=[bool if S == 'bool' else float])
    res = 'block'
    for transpose in (False, True):
        Ause = Afull.T if transpose else Afull
        if S == 'viterbi':
            ref, info = SR.solve(f(np.minimum(Ause, 1.0)) if False else f(Ause), f(bfull).reshape(N, 1), S)
        else:
            ref, info = SR.solve(f(Ause), f(bfull).reshape(N, 1), S)
        if ref is None:
            res = 'declined'
            continue
        snap_a = {k: (v.physical.clone(), v.physical._version, A.densify_pt(v)) for k, v in a.items()}
        snap_b = {k: (v.physical.clone(), v.physical._version, A.densify_pt(v)) for k, v in b.items()}
        out = C.call(M.multi_solve, a, b, transpose=transpose)
        obs['multi_solve_calls'] += 1
        c2 = dict(ctx, transpose=transpose)
        if not out['ok']:
            viols.append(C.viol(f"exception:multi_solve:{S}:{out['exc_type']}:{out.get('where', '')}", f'multi_solve raised {out["exc"]}', context=c2, traceback=out['tb']))
        else:
            x = out['value']
            for k in keys:
                exp = ref[off[k]:off[k] + sizes[k], 0].reshape(tuple(shapes[k]))
                got = A.densify_pt(x[k]) if k in x else torch.full(tuple(shapes[k]), zero, dtype=dtype)
                if tuple(got.shape) != tuple(shapes[k]):
                    viols.append(C.viol('shape:multi_solve', f'block {k} has shape {tuple(got.shape)} expected {tuple(shapes[k])}', context=c2))
                    continue
                msg = cmp(got, exp, S)
                if msg:
                    viols.append(C.viol(f'value:multi_solve:{S}:{"transpose" if transpose else "plain"}' + (':huge-finite-instead-of-inf' if critical(got, exp, S) else ''), f'block {k}: {msg}', context=c2))
                    break
        for name, mt, snap in (('a', a, snap_a), ('b', b, snap_b)):
            if set(mt.keys()) != set(snap):
                viols.append(C.viol(f'argument-modified:multi_solve:{name}-keys', f'multi_solve changed the key set of {name}', context=c2))
                continue
            for k, (ph, ver, dn) in snap.items():
                if mt[k].physical._version != ver or not torch.equal(torch.nan_to_num(A.densify_pt(mt[k]).to(torch.float64), nan=9.0), torch.nan_to_num(dn.to(torch.float64), nan=9.0)):
                    viols.append(C.viol(f'argument-modified:multi_solve:{name}', f'multi_solve modified block {k} of {name}', context=c2))
                    break
        # multi_mv
        out = C.call(M.multi_mv, a, b, transpose=transpose)
        obs['multi_mv_calls'] += 1
        if not out['ok']:
            viols.append(C.viol(f"exception:multi_mv:{S}:{out['exc_type']}:{out.get('where', '')}", f'multi_mv raised {out["exc"]}', context=c2, traceback=out['tb']))
        else:
            y = out['value']
            if S == 'bool':
                prod = (Ause.astype(bool).astype(int) @ bfull.astype(bool).astype(int)) > 0
            elif S == 'viterbi':
                with np.errstate(divide='ignore'):
                    la, lb = np.log(Ause), np.log(bfull)
                prod = np.exp(np.max(np.where(np.isneginf(la) | np.isneginf(lb)[None, :], -np.inf, la + lb[None, :]), axis=1)) if N else np.zeros(0)
            else:
                with np.errstate(invalid='ignore'):
                    terms = Ause * bfull[None, :]
                terms = np.where(np.isnan(terms), 0.0, terms)
                prod = terms.sum(axis=1)
            expv = f(prod) if S != 'bool' else prod
            for k in keys:
                e = np.asarray(expv[off[k]:off[k] + sizes[k]]).reshape(tuple(shapes[k]))
                got = A.densify_pt(y[k]) if k in y else torch.full(tuple(shapes[k]), zero, dtype=dtype)
                msg = cmp(got, e, S)
                if msg:
                    viols.append(C.viol(f'value:multi_mv:{S}:{"transpose" if transpose else "plain"}', f'block {k}: {msg}', context=c2))
                    break
    return res


def run_case(tier, seed, index, spec=None):
    import torch
    fggs = env.setup()
    M = env.mod('fggs.multi')
    SEMR = env.mod('fggs.semirings')
    rng = G.rng_for(seed, 'C09', tier, index)
    viols = []
    obs = dict(solve_calls=0, patterned_solve_calls=0, multi_solve_calls=0, multi_mv_calls=0, lu_accepted=0, gauss_jordan_runs=0)
    orders = set()
    feats = []
    with Hooks() as h:
        depth = {'n': 0}

        def mk_real(orig):
            def w(self_, make_a, make_b):
                depth['n'] += 1
                h.hit('RealSemiring.solve_thunks')
                try:
                    return orig(self_, make_a, make_b)
                finally:
                    depth['n'] -= 1
            return w
        h.wrap(SEMR.RealSemiring, 'solve_thunks', mk_real, key='RealSemiring.solve_thunks')

        def mk_base(orig):
            def w(self_, make_a, make_b):
                obs['gauss_jordan_runs'] += 1
                h.hit('Semiring.solve_thunks')
                return orig(self_, make_a, make_b)
            return w
        h.wrap(SEMR.Semiring, 'solve_thunks', mk_base, key='Semiring.solve_thunks')

        def on_order(r, a, k):
            orders.add('>'.join(map(str, r)))
        h.spy(M, '_order_nonterminals', on_return=on_order, key='_order_nonterminals')
        S = SEMI[index % 4]
        if index < N_STRUCT or (tier == 'thorough' and index < N_STRUCT * 8):
            code = index % N_STRUCT
            struct = {(i, j) for i in range(3) for j in range(3) if code >> (3 * i + j) & 1}
            S = SEMI[(index // 7 + index // N_STRUCT) % 4]
            patterned = (index // 3) % 2 == 1
            cls = block_case(fggs, rng, S, struct, 3, patterned, viols, obs, orders)
            feats = ['structure-exhaustive-3', 'patterned-blocks' if patterned else 'dense-blocks']
            if not any(i == j for i, j in struct) and struct:
                feats.append('no-diagonal-block')
            key = f'B3.{code}.{S}.{patterned}.{seed}'
            sample = dict(kind='block system', present_blocks=sorted(struct), semiring=S, patterned=patterned)
        else:
            k = (index - N_STRUCT) % 3
            if k == 0:
                cls, ctx = dense_case(fggs, rng, S, viols, obs, index // 3)
                feats = ['dense-' + str(cls)]
                key = C.hkey(ctx)
                sample = dict(kind='dense system', cls=cls, semiring=S, A=ctx.get('A'), b=ctx.get('b'))
            elif k == 1:
                cls = patterned_solve_case(fggs, rng, S, viols, obs)
                feats = ['patterned-solve']
                key = f'P{index}.{seed}'
                sample = dict(kind='PatternedTensor.solve with typed patterns', semiring=S)
            else:
                struct = {(i, j) for i in range(4) for j in range(4) if rng.random() < 0.35}
                patterned = rng.random() < 0.5
                cls = block_case(fggs, rng, S, struct, 4, patterned, viols, obs, orders)
                feats = ['structure-random-4', 'patterned-blocks' if patterned else 'dense-blocks']
                key = f'B4.{index}.{seed}'
                sample = dict(kind='block system', present_blocks=sorted(struct), semiring=S, patterned=patterned)
        hooks = dict(h.count)
    obs['lu_accepted'] = max(0, hooks.get('RealSemiring.solve_thunks', 0) - obs['gauss_jordan_runs']) if S == 'real' else 0
    verdict = 'violated' if viols else ('declined' if cls == 'declined' else 'held')
    nontriv = verdict == 'held' and cls != 'declined'
    return dict(cls=feats[0] if feats else 'x', features=feats + [S], verdict=verdict, violations=viols, obs=obs, hooks=hooks,
                nontrivial=nontriv, key=key, sets=dict(elimination_orders=sorted(orders)),
                evals=max(1, obs['solve_calls'] + obs['multi_solve_calls'] + obs['multi_mv_calls']), sample=sample)


ALLOW_DECLINE = {'dense-declined': True}


def finalize(tot, tier, seed):
    inc = []
    for k in ('RealSemiring.solve_thunks', 'Semiring.solve_thunks', '_order_nonterminals'):
        if tot['hooks'].get(k, 0) == 0:
            inc.append(f'hook {k} never reached')
    for k in ('solve_calls', 'patterned_solve_calls', 'multi_solve_calls', 'multi_mv_calls', 'lu_accepted', 'gauss_jordan_runs'):
        if tot['obs'].get(k, 0) == 0:
            inc.append(f'{k} never observed')
    for f in ('dense-convergent', 'dense-one', 'dense-divergent', 'dense-inf', 'patterned-blocks', 'no-diagonal-block'):
        if tot['features'].get(f, 0) == 0:
            inc.append(f'class/feature {f} never generated')
    ex = not tot['cut_short'] and tot['classes'].get('structure-exhaustive-3', 0) >= N_STRUCT
    return dict(exhaustive=False, block_structures_exhausted=bool(ex), exhaustive_bound='all 512 presence patterns of a 3x3 block system (entries, shapes and patterns sampled)'), inc
