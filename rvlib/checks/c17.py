"""C17 — conjunction generates exactly the paired derivations.

Boundary monitor on conjoin_hrgs with hooks on nonterminal_pairs and conjoin_rules (which expose
the label pairing and the rule pair behind every conjoined rule); oracle = independent
conjoinability predicate and independent enumeration of derivation trees of g1, g2 and of the
result up to a depth bound, checked for a bijection."""
import itertools
from . import common as C
from ..core import env
from ..gen import fggspec as G
from ..monitor.hooks import Hooks

PROPERTY = 'C17'
RULE = ('case = a pair of HRGs built over shared skeletons (node ids, external lists, nonterminal-edge ids and attachments): several rules per '
        'skeleton, skeletons present in one grammar only, differing externals, own terminal edges with disjoint ids, shared terminals; strata for '
        'paired-name clashes ("X"+"Y,Z" vs "X,Y"+"Z", a terminal literally called "<X,P>") and for genuine terminal conflicts; derivations '
        'enumerated to depth 4 (quick) / 6 (thorough). evaluations = grammar pairs; non-trivial = result grammar has >= 2 rules and >= 2 '
        'derivations within the bound; distinct = pair hashes')
ASSUMPTIONS = ['terminal edges of the two grammars have disjoint ids (a Graph cannot hold two edges with one id)', 'paired nonterminal edges have explicit ids',
               'rules have pairwise distinct external nodes', 'derivation enumeration capped at 3000 trees per grammar (cap reached => that sub-check is skipped, counted)']


def plan(tier, seed):
    return dict(n=1500 if tier == 'quick' else 150000, budget_s=75 if tier == 'quick' else 840, case_timeout=120)


def gen_pair(fggs, rng, mode):
    """returns (g1, g2, meta)"""
    A, B = fggs.NodeLabel('A'), fggs.NodeLabel('B')
    pre1 = pre2 = ()
    if mode == 'name-clash':
        n1, n2 = ['S', 'X', 'X,Y'], ['T', 'Y,Z', 'Z']
    elif mode == 'name-clash-3':
        # three pairs concatenate to <X,Y,Z,W>: the name has to be made unique twice
        n1, n2 = ['S', 'X', 'X,Y', 'X,Y,Z'], ['T', 'Y,Z,W', 'Z,W', 'W']
    elif mode == 'name-clash-existing':
        # the clash of 'name-clash' plus labels that already carry the paired name / its first alternative
        n1, n2 = ['S', 'X', 'X,Y'], ['T', 'Y,Z', 'Z']
        pre1 = ('<X,Y,Z>',) if rng.random() < 0.7 else ('<X,Y,Z>', '<X,Y,Z>_1')
        pre2 = ('<X,Y,Z>_1',) if rng.random() < 0.3 else ()
    elif mode == 'terminal-named-like-pair':
        n1, n2 = ['S', 'X', 'Y'], ['T', 'P', 'Q']
    elif mode == 'terminal-conflict-behind-nt-collision':
        n1, n2 = ['S', 'X', 'Y'][:rng.randint(2, 3)], ['T', 'X', 'Q'][:rng.randint(2, 3)]
    else:
        n1, n2 = ['S', 'X', 'Y'][:rng.randint(2, 3)], ['T', 'P', 'Q'][:rng.randint(2, 3)]
    same_names = mode == 'same-nt-names'
    if same_names:
        n2 = ['S'] + n1[1:]
    # arity of the k-th nonterminal (shared by both grammars so that rules can pair up): the first
    # is unary; later ones unary or binary over (A, A)
    nt_arity = [0, 1] + [rng.choice([1, 2, 2]) for _ in range(3)]
    # skeletons: arity 0 (for start symbols), 1 and 2 over A
    skels = []
    for k in range(rng.randint(3, 7)):
        ar = 0 if k < 2 else rng.choice([0, 1, 1, 2, 2])
        nn = rng.randint(max(1, ar), 3)
        labels = [A] * max(1, ar) + [rng.choice([A, B]) for _ in range(nn - max(1, ar))]
        nodes = [fggs.Node(l, id=f's{k}n{i}') for i, l in enumerate(labels)]
        ext = nodes[:ar]
        a_nodes = [n for n in nodes if n.label == A]
        slots = []
        for j in range(rng.choice([0, 1, 1, 2, 2])):
            sar = rng.choice([1, 1, 2])
            slots.append((f's{k}e{j}', tuple(rng.choice(a_nodes) for _ in range(sar))))
        skels.append(dict(k=k, nodes=nodes, ext=ext, slots=slots, arity=ar))
    # skeleton variants with the same nodes that must NOT be conjoinable with their base: another external node,
    # the same external nodes in another order, a slot attached elsewhere or with its attachments swapped
    for _ in range(rng.choice([0, 1, 1, 2])):
        base = rng.choice(skels)
        a_nodes = [n for n in base['nodes'] if n.label == A]
        kind = rng.choice(['ext-other', 'ext-order', 'slot-other', 'slot-order', 'slot-extra', 'slot-extra'])
        alt = dict(base, k=f"{base['k']}x{kind}")
        if kind == 'ext-other' and base['arity'] == 1 and len(a_nodes) >= 2:
            alt['ext'] = [a_nodes[1]]
        elif kind == 'ext-order' and base['arity'] == 2:
            alt['ext'] = list(reversed(base['ext']))
        elif kind == 'slot-other' and base['slots'] and len(a_nodes) >= 2:
            alt['slots'] = [(sid, tuple(a_nodes[-1] if n is a_nodes[0] else a_nodes[0] for n in att)) for sid, att in base['slots']]
        elif kind == 'slot-order' and any(len(att) == 2 and att[0] is not att[1] for _, att in base['slots']):
            alt['slots'] = [(sid, tuple(reversed(att))) for sid, att in base['slots']]
        elif kind == 'slot-extra' and base['slots']:
            # all of the base's nonterminal edges and one more (a strict superset / subset, depending on which grammar gets which)
            alt['slots'] = list(base['slots']) + [(f"s{base['k']}e{len(base['slots'])}x", (rng.choice(a_nodes),))]
        else:
            continue
        skels.append(alt)
    shared_t = fggs.EdgeLabel('shared', [A], is_terminal=True)

    nt_arity2 = list(nt_arity)
    if mode == 'terminal-conflict-behind-nt-collision':
        # both grammars have a nonterminal X, of different types (harmless, and registered before any terminal)
        nt_arity2[1] = 2

    def build(names, prefix, tname, pre, nt_arity=nt_arity):
        g = fggs.HRG(fggs.EdgeLabel(names[0], [], is_nonterminal=True))
        nts = {names[0]: fggs.EdgeLabel(names[0], [], is_nonterminal=True)}
        for i, nm in enumerate(names[1:], 1):
            nts[nm] = fggs.EdgeLabel(nm, [A] * nt_arity[i], is_nonterminal=True)
            g.add_edge_label(nts[nm])
        for nm in pre:       # labels that merely exist in the grammar
            g.add_edge_label(fggs.EdgeLabel(nm, [A], is_terminal=True))
        by_ar = {}
        for nm in names[1:]:
            by_ar.setdefault(nts[nm].arity, []).append(nts[nm])
        rid = 0
        for nm, lhs in nts.items():
            cands = [s for s in skels if s['arity'] == lhs.arity and all(len(att) in by_ar for _, att in s['slots'])]
            if not cands:
                continue
            for s in rng.sample(cands, min(len(cands), rng.randint(1, 3))):
                for rep in range(rng.choice([1, 1, 2])):
                    rhs = fggs.Graph()
                    for n in s['nodes']:
                        rhs.add_node(n)
                    rhs.ext = s['ext']
                    pending = [('nt', sid, att) for sid, att in s['slots']] + [('t', j, None) for j in range(rng.choice([0, 1, 1, 2]))]
                    rng.shuffle(pending)          # insertion order of the edges differs from the order of their ids
                    for kind, sid, att in pending:
                        if kind == 'nt':
                            rhs.add_edge(fggs.Edge(rng.choice(by_ar[len(att)]), list(att), id=sid))
                            continue
                        j = sid
                        node = rng.choice(s['nodes'])
                        if rng.random() < 0.25 and node.label == A:
                            lab = shared_t
                        else:
                            lab = fggs.EdgeLabel(f'{tname}{rng.randrange(3)}_{node.label.name}', [node.label], is_terminal=True)
                        rhs.add_edge(fggs.Edge(lab, [node], id=f'{prefix}r{rid}t{j}'))
                    g.add_rule(fggs.HRGRule(lhs, rhs))
                    rid += 1
        return g
    g1 = build(n1, 'g1', 't', pre1)
    g2 = build(n2, 'g2', 'u', pre2, nt_arity2)
    meta = dict(mode=mode, n1=n1, n2=n2, pre=[list(pre1), list(pre2)], variants=[str(s['k']) for s in skels if isinstance(s['k'], str)])
    if mode == 'terminal-named-like-pair':
        # a terminal literally called like a paired nonterminal
        kk = rng.choice([0, 1, 1])           # sometimes the pair of the two START symbols
        nm = f'<{n1[kk]},{n2[kk]}>'
        rhs = fggs.Graph()
        n = fggs.Node(A, id='zz0')
        rhs.add_node(n)
        rhs.add_edge(fggs.Edge(fggs.EdgeLabel(nm, [A], is_terminal=True), [n], id='g1zz'))
        g1.add_rule(fggs.HRGRule(g1.start, rhs))
        meta['literal'] = nm
    if mode == 'terminal-vs-nonterminal-same-name':
        # a terminal of g1 carries the name of a nonterminal of g2 (and vice versa): no two *terminal* labels conflict,
        # so the conjunction is defined as usual
        for g, other in ((g1, n2), (g2, n1)):
            if rng.random() < 0.8:
                nm = rng.choice(other)
                rhs = fggs.Graph()
                n = fggs.Node(A, id='tv0')
                rhs.add_node(n)
                lab = fggs.EdgeLabel(nm, [A], is_terminal=True)
                rhs.add_edge(fggs.Edge(lab, [n], id='tv_g1' if g is g1 else 'tv_g2'))
                g.add_rule(fggs.HRGRule(g.start, rhs))
    if mode in ('terminal-conflict', 'terminal-conflict-behind-nt-collision'):
        for g, typ in ((g1, [A]), (g2, [A, A])):
            rhs = fggs.Graph()
            ns = [fggs.Node(A, id=f'cc{i}') for i in range(len(typ))]
            for n in ns:
                rhs.add_node(n)
            rhs.add_edge(fggs.Edge(fggs.EdgeLabel('conflict', typ, is_terminal=True), ns, id=f'cc{len(typ)}'))
            g.add_rule(fggs.HRGRule(g.start, rhs))
    return g1, g2, meta


def my_conjoinable(r1, r2):
    if set(r1.rhs.nodes()) != set(r2.rhs.nodes()):
        return False
    if [n.id for n in r1.rhs.ext] != [n.id for n in r2.rhs.ext] or [n for n in r1.rhs.ext] != [n for n in r2.rhs.ext]:
        return False
    e1 = {e.id: tuple(n.id for n in e.nodes) for e in r1.rhs.edges() if e.label.is_nonterminal}
    e2 = {e.id: tuple(n.id for n in e.nodes) for e in r2.rhs.edges() if e.label.is_nonterminal}
    return e1 == e2


def abstract(g, rule_key):
    """grammar as dict lhs-name -> list of (rule key, [(edge id, child nt name), ...])"""
    out = {}
    for r in g.all_rules():
        out.setdefault(r.lhs.name, []).append((rule_key(r), sorted((str(e.id), e.label.name) for e in r.rhs.edges() if e.label.is_nonterminal)))
    return out


def enumerate_trees(ab, nt, depth, cap, counter):
    """all derivation trees from nt of height <= depth as nested tuples; None once the cap is exceeded"""
    if depth == 0:
        return []
    res = []
    for key, kids in ab.get(nt, []):
        subs = []
        ok = True
        for eid, cnt in kids:
            s = enumerate_trees(ab, cnt, depth - 1, cap, counter)
            if s is None:
                return None
            if not s:
                ok = False
                break
            subs.append([(eid, t) for t in s])
        if not ok:
            continue
        for combo in itertools.product(*subs):
            res.append((key, tuple(combo)))
            counter[0] += 1
            if counter[0] > cap:
                return None
    return res


def run_case(tier, seed, index, spec=None):
    fggs = env.setup()
    CJ = env.mod('fggs.conjunction')
    rng = G.rng_for(seed, 'C17', tier, index)
    viols = []
    obs = dict(conjoin_calls=0, conjoined_rules_checked=0, pairs_considered=0, derivations_compared=0, enumeration_capped=0, terminal_conflicts_expected=0)
    modes = ['plain', 'plain', 'plain', 'same-nt-names', 'name-clash', 'terminal-named-like-pair', 'terminal-conflict', 'plain', 'name-clash-3', 'name-clash-existing', 'terminal-vs-nonterminal-same-name', 'terminal-conflict-behind-nt-collision']
    mode = modes[index % len(modes)]
    g1, g2, meta = gen_pair(fggs, rng, mode)

    def judge(g1, g2):
        snap1, snap2 = str(g1), str(g2)
        record = dict(pairs=None, rules={})

        def V(sig, msg):
            viols.append(C.viol(sig, msg, meta=meta, g1=snap1[:3000], g2=snap2[:3000]))

        with Hooks() as h:
            def on_pairs(r, a, k):
                record['pairs'] = r
            h.spy(CJ, 'nonterminal_pairs', on_return=on_pairs, key='nonterminal_pairs')

            def on_rule(r, a, k):
                record['rules'][id(r)] = (a[0], a[1], r)
            h.spy(CJ, 'conjoin_rules', on_return=on_rule, key='conjoin_rules')
            out = C.call(fggs.conjoin_hrgs, g1, g2)
            hooks = dict(h.count)
        obs['conjoin_calls'] += 1
        feats = [mode] + sorted({'variant-' + v.split('x', 1)[1] for v in meta['variants']})
        if mode in ('terminal-conflict', 'terminal-conflict-behind-nt-collision'):
            obs['terminal_conflicts_expected'] += 1
            if out['ok']:
                V('terminal-conflict-accepted', 'conjoin_hrgs accepted two grammars with different terminal labels of the same name')
            elif out['exc_type'] != 'ValueError':
                V(f"terminal-conflict-other-exception:{out['exc_type']}", out['exc'])
            return dict(cls=mode, features=feats, verdict='violated' if viols else 'held', violations=viols, obs=obs, hooks=hooks, nontrivial=False, key=C.hkey([snap1, snap2]))
        if not out['ok']:
            V(f"exception:conjoin_hrgs:{out['exc_type']}:{out.get('where', '')}", f'conjoin_hrgs raised {out["exc"]}')
            return dict(cls=mode, features=feats, verdict='violated', violations=viols, obs=obs, hooks=hooks, nontrivial=False, key=C.hkey([snap1, snap2]))
        g = out['value']
        if str(g1) != snap1 or str(g2) != snap2:
            V('input-modified', 'conjoin_hrgs modified an input grammar')
        ntm = record['pairs']
        if ntm is None:
            return dict(cls=mode, features=feats, verdict='declined', violations=[], obs=obs, hooks=hooks, nontrivial=False, key=C.hkey([snap1, snap2]))
        # (4) paired names
        names = [l.name for l in ntm.values()]
        existing = {l.name for l in g1.edge_labels()} | {l.name for l in g2.edge_labels()}
        if len(set(names)) != len(names):
            V('paired-names-not-unique', f'two nonterminal pairs share a name: {sorted(names)}')
        clash = set(names) & existing
        if clash:
            V('paired-name-collides-with-existing-label', f'{sorted(clash)}')
        want_pairs = {(a.name, b.name) for a in g1.nonterminals() for b in g2.nonterminals()}
        if {(a.name, b.name) for a, b in ntm} != want_pairs:
            V('paired-names-incomplete', 'nonterminal_pairs does not cover all pairs')
        for (a, b), l in ntm.items():
            if l.is_terminal or tuple(l.type) != tuple(a.type):
                V('paired-label-type', f'pair ({a.name},{b.name}) -> {l.name} has wrong kind/type')
        # (3) start
        if g.start != ntm.get((g1.start, g2.start)):
            V('start', f'start is {g.start.name}')
        # (2) exactly the conjoinable pairs
        r1s, r2s = g1.all_rules(), g2.all_rules()
        want = [(i, j) for i, a in enumerate(r1s) for j, b in enumerate(r2s) if my_conjoinable(a, b)]
        obs['pairs_considered'] += len(r1s) * len(r2s)
        got = {}
        for R in g.all_rules():
            rec = record['rules'].get(id(R))
            if rec is None:
                V('rule-of-unknown-origin', f'rule {R.lhs.name} of the result was not produced by conjoin_rules')
                continue
            i = next(k for k, x in enumerate(r1s) if x is rec[0])
            j = next(k for k, x in enumerate(r2s) if x is rec[1])
            got.setdefault((i, j), []).append(R)
        if sorted(got) != sorted(want) or any(len(v) != 1 for v in got.values()):
            missing = sorted(set(want) - set(got))
            extra = sorted(set(got) - set(want))
            V('rule-pairs:' + ('missing' if missing else 'extra' if extra else 'duplicated'), f'conjoinable pairs {want}; conjoined {sorted(got)}')
        # (1) each conjoined rule carries what the statement says
        for (i, j), Rs in got.items():
            a, b, R = r1s[i], r2s[j], Rs[0]
            obs['conjoined_rules_checked'] += 1
            bad = []
            if R.lhs != ntm.get((a.lhs, b.lhs)):
                bad.append(f'lhs {R.lhs.name}')
            if set(R.rhs.nodes()) != set(a.rhs.nodes()) or len(list(R.rhs.nodes())) != len(list(a.rhs.nodes())):
                bad.append('nodes differ from the pair\'s')
            if list(R.rhs.ext) != list(a.rhs.ext):
                bad.append('external nodes differ')
            nt_a = {e.id: e for e in a.rhs.edges() if e.label.is_nonterminal}
            nt_b = {e.id: e for e in b.rhs.edges() if e.label.is_nonterminal}
            nt_R = {e.id: e for e in R.rhs.edges() if e.label.is_nonterminal}
            if set(nt_R) != set(nt_a) or len(nt_R) != len([e for e in R.rhs.edges() if e.label.is_nonterminal]):
                bad.append('nonterminal edge ids differ')
            else:
                for eid, e in nt_R.items():
                    if nt_b.get(eid) is None or e.label != ntm.get((nt_a[eid].label, nt_b[eid].label)) or tuple(e.nodes) != tuple(nt_a[eid].nodes):
                        bad.append(f'nonterminal edge {eid} mislabelled or re-attached')
            t_want = sorted((str(e.id), e.label.name, tuple(n.id for n in e.nodes)) for r in (a, b) for e in r.rhs.edges() if e.label.is_terminal)
            t_got = sorted((str(e.id), e.label.name, tuple(n.id for n in e.nodes)) for e in R.rhs.edges() if e.label.is_terminal)
            if t_want != t_got:
                bad.append('terminal edges are not the union of both rules\' terminal edges')
            if bad:
                V('conjoined-rule-content', f'pair ({i},{j}): ' + '; '.join(bad[:4]))
        # (5) derivation bijection up to the depth bound
        depth = 4 if tier == 'quick' else 6
        if not viols:
            idx1 = {id(r): i for i, r in enumerate(r1s)}
            idx2 = {id(r): i for i, r in enumerate(r2s)}
            key_of = {id(R): ij for ij, Rs in got.items() for R in Rs}
            ab1 = abstract(g1, lambda r: idx1[id(r)])
            ab2 = abstract(g2, lambda r: idx2[id(r)])
            abr = abstract(g, lambda r: key_of[id(r)])
            cnt = [0]
            t1 = enumerate_trees(ab1, g1.start.name, depth, 3000, cnt)
            t2 = enumerate_trees(ab2, g2.start.name, depth, 3000, cnt) if t1 is not None else None
            tr = enumerate_trees(abr, g.start.name, depth, 3000, cnt) if t2 is not None else None
            if tr is None:
                obs['enumeration_capped'] += 1
            else:
                def pair(x, y):
                    """pair two trees if same shape and conjoinable rules everywhere; else None"""
                    (k1, c1), (k2, c2) = x, y
                    if (k1, k2) not in got:
                        return None
                    if [e for e, _ in c1] != [e for e, _ in c2]:
                        return None
                    kids = []
                    for (e, a_), (_, b_) in zip(c1, c2):
                        p = pair(a_, b_)
                        if p is None:
                            return None
                        kids.append((e, p))
                    return ((k1, k2), tuple(kids))
                want_trees = set()
                for x in t1:
                    for y in t2:
                        p = pair(x, y)
                        if p is not None:
                            want_trees.add(p)
                got_trees = list(tr)
                obs['derivations_compared'] += len(got_trees) + len(want_trees)
                if len(set(got_trees)) != len(got_trees):
                    V('derivations:duplicates', 'two derivations of the result project to the same pair')
                if set(got_trees) != want_trees:
                    V('derivations:' + ('missing' if want_trees - set(got_trees) else 'extra'),
                      f'{len(want_trees)} paired derivations expected within depth {depth}, result grammar has {len(got_trees)}; '
                      f'missing {len(want_trees - set(got_trees))}, extra {len(set(got_trees) - want_trees)}')
                nontrivial = len(g.all_rules()) >= 2 and len(got_trees) >= 2
                return dict(cls=mode, features=feats, verdict='violated' if viols else 'held', violations=viols, obs=obs, hooks=hooks, nontrivial=nontrivial,
                            key=C.hkey([snap1, snap2]), sample=dict(mode=mode, g1_rules=len(r1s), g2_rules=len(r2s), conjoined_rules=len(g.all_rules()),
                                                                    derivations_within_depth=len(got_trees), nonterminals=[n1 for n1 in meta['n1']] + meta['n2']))
        return dict(cls=mode, features=feats, verdict='violated' if viols else 'held', violations=viols, obs=obs, hooks=hooks, nontrivial=False, key=C.hkey([snap1, snap2]),
                    sample=dict(mode=mode))

    res = judge(g1, g2)
    if mode in ('plain', 'same-nt-names') and index % 3 != 1 and res['verdict'] == 'held':
        # the first grammar is edited in place after it has been conjoined -- a nonterminal edge of one rule gets another
        # label (same id, same attachment) -- and conjoined again: the result has to be that of the edited grammar
        cands = [(r, e) for r in g1.all_rules() for e in r.rhs.edges() if e.label.is_nonterminal]
        others = lambda e: [l for l in g1.nonterminals() if l != e.label and tuple(l.type) == tuple(e.label.type)]
        cands = [(r, e) for r, e in cands if others(e)]
        if cands:
            r, e = rng.choice(cands)
            newlab = rng.choice(others(e))
            r.rhs.remove_edge(e)
            r.rhs.add_edge(fggs.Edge(newlab, list(e.nodes), id=e.id))
            meta['edited'] = f'edge {e.id} of a rule of {r.lhs.name}: {e.label.name} -> {newlab.name}'
            res2 = judge(g1, g2)
            res2['features'] = list(res2.get('features', [])) + ['conjoined-again-after-edit']
            for v in res2.get('violations', []):
                v['sig'] = v['sig'] + ':after-edit'
            return res2
    return res


def finalize(tot, tier, seed):
    inc = []
    for k in ('nonterminal_pairs', 'conjoin_rules'):
        if tot['hooks'].get(k, 0) == 0:
            inc.append(f'hook {k} never reached')
    for k in ('conjoined_rules_checked', 'derivations_compared', 'terminal_conflicts_expected'):
        if tot['obs'].get(k, 0) == 0:
            inc.append(f'{k} never observed')
    if tot['obs'].get('enumeration_capped', 0) > 0.5 * tot['evaluated']:
        inc.append('derivation enumeration hit its cap in more than half of the cases')
    for f in ('conjoined-again-after-edit', 'plain', 'same-nt-names', 'name-clash', 'name-clash-3', 'name-clash-existing', 'terminal-vs-nonterminal-same-name', 'terminal-named-like-pair', 'terminal-conflict', 'terminal-conflict-behind-nt-collision',
              'variant-ext-other', 'variant-ext-order', 'variant-slot-other', 'variant-slot-order', 'variant-slot-extra'):
        if tot['features'].get(f, 0) == 0:
            inc.append(f'class {f} never generated')
    return {}, inc
