"""C16 — graphs and grammars stay well formed under any sequence of API calls.

A history of public calls (about 40 % designed to fail) is executed on a small pool of Graph /
HRG / FactorGraph / FGG objects.  After every call: class invariants of every object in the pool
(monitor/graphinv), post-conditions of successful calls, atomicity of failed calls (public-accessor
snapshot unchanged), copies equal and independent, == an equivalence that distinguishes.
icontract class invariants are additionally installed on Graph/HRG, so every object the library
builds itself is checked around each public method."""
import itertools
from . import common as C
from ..core import env
from ..gen import fggspec as G
from ..monitor import graphinv as GI

PROPERTY = 'C16'
RULE = ('case = one random history of 8..40 public calls (add/new/remove node and edge, ext=, add/new rule, start=, add label/domain/factor, '
        'copy) over 3 node labels, 4 edge-label names with conflicting types/terminality, 4 explicit node ids and 4 edge ids plus implicit ids; '
        'evaluations = histories; non-trivial = history with >=3 successful and >=1 failing call; distinct = distinct call-sequence hashes')
ASSUMPTIONS = ['right-hand sides are passed to rules as copies unless the history class is "alias" (a rule whose rhs is mutated afterwards is the recorded design limitation)']


def plan(tier, seed):
    return dict(n=6000 if tier == 'quick' else 120000, budget_s=70 if tier == 'quick' else 600, case_timeout=60)


class Driver:
    def __init__(self, fggs, rng, alias):
        import torch
        self.f = fggs
        self.rng = rng
        self.alias = alias
        self.torch = torch
        self.NL = [fggs.NodeLabel(x) for x in 'ABC']
        self.implicit_nodes = []
        self.implicit_edges = []
        self.pool = {'g0': fggs.Graph(), 'g1': fggs.Graph(), 'fg': fggs.FactorGraph(),
                     'h': fggs.HRG('S'), 'F': fggs.FGG('S')}
        self.log = []
        self.viols = []
        self.n_ok = self.n_fail = 0
        self.inv_evals = 0
        self.doms = {}

    # ---------------- argument generators
    def node(self):
        r = self.rng
        if self.implicit_nodes and r.random() < 0.25:
            return r.choice(self.implicit_nodes)
        if r.random() < 0.15:
            n = self.f.Node(r.choice(self.NL))
            self.implicit_nodes.append(n)
            return n
        return self.f.Node(r.choice(self.NL), id=f'n{r.randrange(4)}')

    def existing_node(self, g):
        ns = list(g.nodes())
        return self.rng.choice(ns) if ns and self.rng.random() < 0.7 else self.node()

    def label(self, nodes=None, name=None):
        r = self.rng
        name = name or f'e{r.randrange(4)}'
        if nodes is None or r.random() < 0.15:
            typ = [r.choice(self.NL) for _ in range(r.choice([0, 1, 1, 2, 2, 3]))]
        else:
            typ = [n.label for n in nodes]
        # terminality mostly a function of the name, sometimes conflicting
        term = (name in ('e0', 'e1')) != (r.random() < 0.1)
        return self.f.EdgeLabel(name, typ, is_terminal=term, is_nonterminal=not term)

    def edge(self, g):
        r = self.rng
        if self.implicit_edges and r.random() < 0.1:
            return r.choice(self.implicit_edges)
        k = r.choice([0, 1, 1, 2, 2, 3])
        nodes = [self.existing_node(g) for _ in range(k)]
        lab = self.label(nodes)
        eid = None if r.random() < 0.2 else f'x{r.randrange(4)}'
        e = self.f.Edge(lab, nodes, id=eid) if eid else self.f.Edge(lab, nodes)
        if eid is None:
            self.implicit_edges.append(e)
        return e

    # ---------------- one step
    def step(self):
        r = self.rng
        name = r.choice(['g0', 'g0', 'g1', 'fg', 'h', 'F', 'F'])
        x = self.pool[name]
        kind = type(x).__name__
        if kind in ('Graph', 'FactorGraph'):
            ops = ['add_node', 'add_node', 'new_node', 'remove_node', 'add_edge', 'add_edge', 'add_edge', 'new_edge', 'remove_edge', 'ext', 'ext', 'copy']
            if kind == 'FactorGraph':
                ops += ['add_domain', 'add_factor', 'new_finite_domain', 'new_finite_factor', 'add_factor']
        else:
            ops = ['add_rule', 'add_rule', 'new_rule', 'start', 'add_edge_label', 'add_node_label', 'copy']
            if kind == 'FGG':
                ops += ['add_domain', 'add_factor', 'new_finite_domain', 'new_finite_factor', 'add_factor', 'add_domain']
        op = r.choice(ops)
        post = None
        desc = None
        f = self.f
        try:
            if op == 'add_node':
                n = self.node()
                desc = f'{name}.add_node({n.id}:{n.label.name})'
                call = lambda: x.add_node(n)
                post = lambda: None if n in x.nodes() else 'node absent after add_node'
            elif op == 'new_node':
                lab = r.choice('ABC')
                nid = None if r.random() < 0.3 else f'n{r.randrange(4)}'
                desc = f'{name}.new_node({lab},{nid})'
                holder = {}
                call = lambda: holder.setdefault('n', x.new_node(lab, id=nid))
                post = lambda: None if holder['n'] in x.nodes() and holder['n'].label.name == lab else 'new_node result not in graph'
            elif op == 'remove_node':
                n = self.existing_node(x)
                if r.random() < 0.2:   # same id, other label
                    n = f.Node(r.choice(self.NL), id=n.id) if isinstance(n.id, str) else n
                desc = f'{name}.remove_node({n.id}:{n.label.name})'
                was = n in x.nodes()
                call = lambda: x.remove_node(n)
                post = lambda: ('remove_node succeeded on a node that was not in the graph' if not was else None) or (None if n not in x.nodes() and not x.has_node_id(n.id) else 'node still present after remove_node')
            elif op == 'add_edge':
                e = self.edge(x)
                desc = f'{name}.add_edge({e.id}:{e.label.name}/{"T" if e.label.is_terminal else "N"}({",".join(str(n.id) + ":" + n.label.name for n in e.nodes)}))'
                call = lambda: x.add_edge(e)
                post = lambda: None if e in x.edges() and all(n in x.nodes() for n in e.nodes) else 'edge or its nodes absent after add_edge'
            elif op == 'new_edge':
                k = r.choice([0, 1, 2])
                nodes = [self.existing_node(x) for _ in range(k)]
                nm = f'e{r.randrange(4)}'
                term = (nm in ('e0', 'e1')) != (r.random() < 0.1)
                eid = None if r.random() < 0.3 else f'x{r.randrange(4)}'
                desc = f'{name}.new_edge({nm},[{",".join(str(n.id) for n in nodes)}],terminal={term},id={eid})'
                holder = {}
                call = lambda: holder.setdefault('e', x.new_edge(nm, nodes, is_terminal=term, is_nonterminal=not term, id=eid))
                post = lambda: None if holder['e'] in x.edges() else 'new_edge result not in graph'
            elif op == 'remove_edge':
                es = list(x.edges())
                e = r.choice(es) if es and r.random() < 0.7 else self.edge(x)
                if es and r.random() < 0.2 and isinstance(e.id, str):   # same id, other content
                    e = f.Edge(self.label([], name=e.label.name + 'z'), [], id=e.id)
                desc = f'{name}.remove_edge({e.id}:{e.label.name})'
                was = e in x.edges()
                call = lambda: x.remove_edge(e)
                post = lambda: ('remove_edge succeeded on an edge that was not in the graph' if not was else None) or (None if e not in x.edges() else 'edge still present')
            elif op == 'ext':
                k = r.choice([0, 1, 1, 2])
                nodes = [self.existing_node(x) for _ in range(k)]
                if r.random() < 0.5:
                    nodes = list(dict.fromkeys(nodes))
                desc = f'{name}.ext=[{",".join(str(n.id) + ":" + n.label.name for n in nodes)}]'
                call = lambda: setattr(x, 'ext', nodes)
                post = lambda: None if tuple(x.ext) == tuple(nodes) and all(n in x.nodes() for n in nodes) else 'ext not set as given / external node not in graph'
            elif op == 'copy':
                desc = f'{name}.copy()'
                call = lambda: self.check_copy(name, x)
            elif op == 'add_rule':
                src = self.pool[r.choice(['g0', 'g1'])]
                rhs = src if self.alias and r.random() < 0.5 else src.copy()
                lhsname = r.choice(['S', 'X', 'e2', 'e3', 'e0'])
                if r.random() < 0.8:
                    lhs = f.EdgeLabel(lhsname, [n.label for n in rhs.ext], is_nonterminal=True)
                else:
                    lhs = self.label(None, name=lhsname)
                desc = f'{name}.add_rule({lhs.name}/{"T" if lhs.is_terminal else "N"}{[l.name for l in lhs.type]} -> copy of graph with {len(list(rhs.nodes()))} nodes, {len(list(rhs.edges()))} edges)'
                holder = {}

                def call():
                    holder['r'] = f.HRGRule(lhs, rhs)
                    x.add_rule(holder['r'])
                post = lambda: None if holder['r'] in x.all_rules() and holder['r'] in x.rules(lhs) else 'rule absent after add_rule'
            elif op == 'new_rule':
                src = self.pool[r.choice(['g0', 'g1'])]
                rhs = src if self.alias and r.random() < 0.5 else src.copy()
                lhsname = r.choice(['S', 'X', 'e2', 'e3', 'e1'])
                desc = f'{name}.new_rule({lhsname}, graph)'
                holder = {}
                call = lambda: holder.setdefault('r', x.new_rule(lhsname, rhs))
                post = lambda: None if holder['r'] in x.all_rules() else 'rule absent after new_rule'
            elif op == 'start':
                s = r.choice(['S', 'X', 'e0', 'e2', self.label(None, name='X'), self.label(None, name='e1')])
                desc = f'{name}.start={s if isinstance(s, str) else s.name + ("/T" if s.is_terminal else "/N")}'
                call = lambda: setattr(x, 'start', s)
                post = lambda: None if (x.start.name == (s if isinstance(s, str) else s.name) and x.start.is_nonterminal) else 'start not set'
            elif op == 'add_edge_label':
                lab = self.label(None)
                desc = f'{name}.add_edge_label({lab.name}/{"T" if lab.is_terminal else "N"}{[l.name for l in lab.type]})'
                call = lambda: x.add_edge_label(lab)
                post = lambda: None if x.get_edge_label(lab.name) == lab else 'label not registered'
            elif op == 'add_node_label':
                lab = r.choice(self.NL)
                desc = f'{name}.add_node_label({lab.name})'
                call = lambda: x.add_node_label(lab)
                post = lambda: None if x.has_node_label_name(lab.name) else 'node label not registered'
            elif op in ('add_domain', 'new_finite_domain'):
                nl = r.choice(self.NL)
                size = r.choice([1, 2, 2, 3])
                if op == 'add_domain':
                    dom = f.RangeDomain(size) if r.random() < 0.5 else f.FiniteDomain(list(range(size)))
                    desc = f'{name}.add_domain({nl.name}, size {size})'
                    call = lambda: x.add_domain(nl, dom)
                else:
                    desc = f'{name}.new_finite_domain({nl.name}, size {size})'
                    call = lambda: x.new_finite_domain(nl.name, list(range(size)))
                post = lambda: None if nl.name in x.domains and x.domains[nl.name].size() == size else 'domain not bound'
            elif op in ('add_factor', 'new_finite_factor'):
                labs = [l for l in x.edge_labels()]
                lab = r.choice(labs) if labs and r.random() < 0.85 else self.label(None)
                sizes = []
                for nl in lab.type:
                    d = x.domains.get(nl.name)
                    sizes.append(d.size() if d is not None else 2)
                if r.random() < 0.15 and sizes:
                    sizes[0] += 1
                w = self.torch.rand(sizes, dtype=self.torch.float64)
                if r.random() < 0.3:
                    w.requires_grad_()        # user-owned leaf tensors that require gradients are legitimate weights
                if op == 'add_factor':
                    doms = [x.domains.get(nl.name, f.RangeDomain(2)) for nl in lab.type]
                    if r.random() < 0.15 and doms:
                        doms = doms[:-1]
                    desc = f'{name}.add_factor({lab.name}/{"T" if lab.is_terminal else "N"}, factor of shape {sizes})'

                    def call():
                        fac = f.FiniteFactor(doms, w)
                        x.add_factor(lab, fac)
                else:
                    desc = f'{name}.new_finite_factor({lab.name}, weights of shape {sizes})'
                    call = lambda: x.new_finite_factor(lab.name, w)
                post = lambda: None if lab.name in x.factors else 'factor not bound'
        except Exception as e:   # argument construction itself may legitimately fail (e.g. Edge type check)
            self.log.append(f'(arg construction failed: {type(e).__name__})')
            return True
        return self.execute(name, x, op, desc, call, post)

    def execute(self, name, x, op, desc, call, post):
        before = {k: GI.snap(v) for k, v in self.pool.items()}
        out = C.call(call)
        self.log.append(desc + (' -> ok' if out['ok'] else f' -> {out["exc_type"]}'))
        if out['ok']:
            self.n_ok += 1
        else:
            self.n_fail += 1
        if not out['ok'] and out['exc_type'] == 'InvariantBroken':
            self.V(f'invariant-icontract:{type(x).__name__}', f'icontract invariant: {out["exc"]}')
            return False
        if not out['ok'] and out['exc_type'] in ('AttributeError', 'KeyError', 'TypeError', 'IndexError', 'AssertionError', 'RuntimeError') and op not in ('new_finite_factor',):
            # the documented failure mode of these APIs is ValueError/Exception raised deliberately
            pass
        after = {k: GI.snap(v) for k, v in self.pool.items()}
        if not out['ok']:
            for k in self.pool:
                if after[k] != before[k]:
                    diff = [f for f in after[k] if after[k][f] != before[k].get(f)]
                    self.V(f'not-atomic:{type(self.pool[k]).__name__}.{op}', f'{desc} raised {out["exc"]} but changed {k}: fields {diff}')
                    return False
        else:
            for k in self.pool:
                if k != name and after[k] != before[k] and not self.alias:
                    self.V(f'other-object-changed:{op}', f'{desc} changed the unrelated object {k}')
                    return False
            if post:
                p = post()
                if p:
                    self.V(f'postcondition:{type(x).__name__}.{op}', f'{desc}: {p}')
                    return False
        for k, v in self.pool.items():
            d = GI.defects(v)
            self.inv_evals += 1
            if d:
                d0 = d[0]
                kind = ('dangling-attachment' if 'not a node of the graph' in d0 else
                        'lhs-rhs-type' if 'lhs type differs' in d0 else
                        'label-name-two-labels' if 'denotes two labels' in d0 else
                        'label-table' if 'label table' in d0 or 'not in the label table' in d0 else
                        'interp' if 'factor' in d0 or 'domain' in d0 else 'other')
                sig = f'invariant:{type(v).__name__}:{kind}'
                if self.alias and name in ('g0', 'g1') and k in ('h', 'F'):
                    # the graph just mutated is (by construction of this history class) the
                    # right-hand side of an existing rule: the recorded design limitation
                    sig = f'invariant:{type(v).__name__}:rhs-mutated-after-rule-creation'
                self.V(sig, f'after {desc}: {k}: ' + '; '.join(d[:3]))
                return False
        return True

    def V(self, sig, msg):
        self.viols.append(C.viol(sig, msg, history=list(self.log)))

    # ---------------- copies
    def check_copy(self, name, x):
        try:
            c = x.copy()
        except Exception as e:
            import traceback
            self.V(f'copy-raises:{type(x).__name__}:{type(e).__name__}', f'{name}.copy() raised {type(e).__name__}: {str(e)[:200]}')
            return
        if type(c) is not type(x):
            raise AssertionError(f'copy() returned {type(c).__name__}')
        s0 = GI.snap(x)
        if GI.snap(c) != s0:
            a, b = GI.snap(c), s0
            diff = [k for k in b if a.get(k) != b[k]]
            self.V(f'copy-differs:{type(x).__name__}', f'{name}.copy() differs from the original in {diff}')
            return
        if not (c == x) or (c != x) or not (x == c):
            self.V(f'copy-unequal:{type(x).__name__}', f'{name}.copy() != original')
            return
        dc = GI.defects(c)
        if dc:
            self.V(f'copy-malformed:{type(x).__name__}', f'{name}.copy(): ' + '; '.join(dc[:3]))
            return
        # the two converting constructors: a FactorGraph made from a Graph / an FGG made from an HRG carries the same
        # nodes, edges, external nodes resp. start, labels and rules (and nothing else yet)
        f = self.f
        if type(x).__name__ == 'Graph' and hasattr(f.FactorGraph, 'from_graph'):
            try:
                fg = f.FactorGraph.from_graph(x)
            except Exception as e:
                self.V(f'from_graph-raises:{type(e).__name__}', f'FactorGraph.from_graph({name}) raised {type(e).__name__}: {str(e)[:200]}')
                fg = None
            if fg is not None:
                self.obs_from = getattr(self, 'obs_from', 0) + 1
                a, b = GI.snap_graph(fg), GI.snap_graph(x)
                diff = [k for k in ('nodes', 'edges', 'ext', 'type') if sorted(map(repr, a[k])) != sorted(map(repr, b[k]))] if True else []
                if diff or tuple(a['ext']) != tuple(b['ext']):
                    self.V('from_graph-differs', f'FactorGraph.from_graph({name}) differs from the graph in {diff or ["ext order"]}')
                elif GI.defects(fg):
                    self.V('from_graph-malformed', '; '.join(GI.defects(fg)[:3]))
                elif fg.domains or fg.factors:
                    self.V('from_graph-differs', 'FactorGraph.from_graph invented domains or factors')
        if type(x).__name__ == 'HRG' and getattr(x, '_start', None) is not None and hasattr(f.FGG, 'from_hrg'):
            try:
                fg = f.FGG.from_hrg(x)
            except Exception as e:
                self.V(f'from_hrg-raises:{type(e).__name__}', f'FGG.from_hrg({name}) raised {type(e).__name__}: {str(e)[:200]}')
                fg = None
            if fg is not None:
                self.obs_from = getattr(self, 'obs_from', 0) + 1
                a, b = GI.snap(fg), GI.snap(x)
                diff = [k for k in ('start', 'node_labels', 'edge_labels', 'nonterminals', 'terminals', 'rules') if a.get(k) != b.get(k)]
                if diff:
                    self.V('from_hrg-differs', f'FGG.from_hrg({name}) differs from the grammar in {diff}')
        # independence: mutate the copy in every way we can, the original must not move
        kind = type(x).__name__
        try:
            if kind in ('Graph', 'FactorGraph'):
                n = f.Node(self.NL[0])
                c.add_node(n)
                c.add_edge(f.Edge(f.EdgeLabel('fresh_label', [self.NL[0]], is_terminal=True), [n]))
                c.ext = list(c.ext) + [n]
                for e in list(c.edges())[:1]:
                    c.remove_edge(e)
            else:
                g = f.Graph()
                n = g.new_node('A')
                g.new_edge('fresh_label', [n], is_terminal=True)
                c.new_rule('FreshNT', g)
                for r_ in c.all_rules()[:2]:
                    r_.rhs.add_node(f.Node(self.NL[1]))
                c.start = 'FreshNT'
            if kind in ('FactorGraph', 'FGG'):
                for k_, fac in c.factors.items():
                    if hasattr(fac, 'weights') and fac.weights.physical.numel():
                        fac.weights.physical.mul_(2).add_(1)
                if 'C' not in c.domains:
                    c.add_domain(f.NodeLabel('C'), f.RangeDomain(5))
                for k_, d in c.domains.items():
                    if hasattr(d, 'values'):
                        d.values.append('intruder')
        except Exception as e:
            pass
        if GI.snap(x) != s0:
            a = GI.snap(x)
            diff = [k for k in s0 if a.get(k) != s0[k]]
            self.V(f'copy-not-independent:{kind}', f'mutating {name}.copy() changed the original in {diff}')

    # ---------------- equivalence
    def check_eq(self):
        objs = list(self.pool.values())
        extra = []
        for v in objs:
            try:
                extra.append(v.copy())
            except Exception:
                pass
        allo = objs + extra
        for a in allo:
            if not (a == a) or (a != a):
                self.V(f'eq-not-reflexive:{type(a).__name__}', 'x != x')
                return
        for a, b in itertools.combinations(allo, 2):
            if (a == b) != (b == a):
                self.V('eq-not-symmetric', f'{type(a).__name__} vs {type(b).__name__}')
                return
            if (a == b) == (a != b):
                self.V('eq-ne-inconsistent', f'{type(a).__name__} vs {type(b).__name__}')
                return
        for a, b, c in itertools.permutations(allo, 3):
            if a == b and b == c and not a == c:
                self.V('eq-not-transitive', '')
                return
        # distinguishes: a copy that differs in one listed aspect must be unequal
        f = self.f
        for k, v in self.pool.items():
            kind = type(v).__name__
            variants = []
            try:
                if kind in ('Graph', 'FactorGraph'):
                    c = v.copy(); c.add_node(f.Node(self.NL[0])); variants.append(('extra node', c))
                    c = v.copy(); n = f.Node(self.NL[0]); c.add_edge(f.Edge(f.EdgeLabel('fresh_label', [self.NL[0]], is_terminal=True), [n])); variants.append(('extra edge', c))
                    if list(v.nodes()):
                        c = v.copy(); n0 = list(c.nodes())[0]
                        c.ext = list(c.ext) + [n0]; variants.append(('different ext', c))
                    if list(v.edges()):
                        c = v.copy(); c.remove_edge(list(c.edges())[0]); variants.append(('edge removed', c))
                    # the same node id carrying another label (an isolated node, so that nothing else differs)
                    iso_ = [n for n in v.nodes() if n.persist_id and n not in v.ext and not any(n in e.nodes for e in v.edges())]
                    if iso_:
                        n0 = iso_[0]
                        c = v.copy(); c.remove_node(n0)
                        c.add_node(f.Node(self.NL[1] if n0.label == self.NL[0] else self.NL[0], id=n0.id)); variants.append(('an isolated node relabelled', c))
                else:
                    g = f.Graph(); g.new_node('A')
                    c = v.copy(); c.new_rule('FreshNT', g); variants.append(('extra rule', c))
                    c = v.copy(); c.start = 'OtherStart'; variants.append(('different start', c))
                    for nt in v.nonterminals():
                        if not v.rules(nt) and nt.arity == 0:
                            # only the rule table differs: every label involved is already registered
                            c = v.copy(); c.add_rule(f.HRGRule(nt, f.Graph())); variants.append(('rule for a so-far rule-less nonterminal', c))
                            break
                    if v.all_rules():
                        c = v.copy(); c.add_rule(v.all_rules()[0].copy()); variants.append(('a rule listed twice', c))
            except Exception:
                continue
            for what, c in variants:
                if (c == v) != (v == c):
                    self.V('eq-not-symmetric', f'{k} vs its variant with {what}: a == b is {v == c}, b == a is {c == v}')
                    return
                if c == v or v == c or not (c != v) or not (v != c):
                    self.V(f'eq-does-not-distinguish:{kind}:{what.replace(" ", "-")}', f'{k} == variant with {what}')
                    return


def run_case(tier, seed, index, spec=None):
    fggs = env.setup()
    # icontract evaluates class invariants around *every* public method, accessors included
    # (measured: 18.7M evaluations for 3000 histories, 2.3x slower), so it is on in the thorough
    # tier only; the deciding monitor is the driver-level check after every call.
    ic = GI.install_icontract(fggs) if tier == 'thorough' else False
    rng = G.rng_for(seed, 'C16', tier, index)
    alias = index % 10 == 9
    d = Driver(fggs, rng, alias)
    ev0 = GI.COUNT['evaluations']
    n = rng.randint(8, 40)
    for i in range(n):
        if not d.step():
            break
    if not d.viols:
        d.check_eq()
    feats = ['alias-history' if alias else 'copy-history']
    return dict(cls='alias' if alias else 'plain', features=feats, verdict='violated' if d.viols else 'held', violations=d.viols,
                obs=dict(calls_ok=d.n_ok, calls_failed=d.n_fail, invariant_evaluations=d.inv_evals,
                         icontract_evaluations=GI.COUNT['evaluations'] - ev0),
                hooks=dict(icontract_installed=int(ic)),
                nontrivial=d.n_ok >= 3 and d.n_fail >= 1, key=C.hkey(d.log), sample=dict(history=d.log[:25]))


def finalize(tot, tier, seed):
    inc = []
    if tot['obs'].get('calls_failed', 0) == 0 or tot['obs'].get('calls_ok', 0) == 0:
        inc.append('histories had no failing or no succeeding calls')
    if tot['obs'].get('invariant_evaluations', 0) == 0:
        inc.append('invariants never evaluated')
    return dict(icontract_active=tot['hooks'].get('icontract_installed', 0) > 0), inc
