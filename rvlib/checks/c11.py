"""C11 — solver options change cost, never the answer.

Differential monitor: one generated grammar is solved under every admissible combination of
method x j_precompute x dtype x semiring in-process, under python / -O / -OO in subprocesses, and
through `python -OO bin/sum_product.py`; all results are compared with each other and with the
reference value/gradient (so the wrong side is named), and the cross-semiring relations
Log = log Real, Bool = support, Viterbi <= Log are checked.  Hooks on J and
J_precompute_products prove that both Jacobian constructions ran."""
import json, math, os, subprocess, sys
from . import common as C
from . import c03
from ..core import env
from ..gen import fggspec as G
from ..oracle import sumproduct_ref as R
from ..monitor.hooks import Hooks

PROPERTY = 'C11'
RULE = ('case = one generated FGG spec with finite Z (non-recursive, linear, non-linear, mixed; incl. rules with >= 3 edges and a node private to '
        'the first ones, edgeless nodes next to the differentiated edge) solved under method x j_precompute x {float32,float64} x {Real,Log} with '
        'values and gradients compared to the reference, plus Bool/Viterbi cross-relations; interpreter-level cases run a batch of specs under '
        'python, -O and -OO subprocesses and through bin/sum_product.py -OO. evaluations = configurations compared; non-trivial = recursive spec '
        'or spec with a >= 3-edge rule; distinct = spec hashes')
ASSUMPTIONS = ['specs conditioned to spectral radius <= 0.9; float64 runs use tol=1e-14 and are compared with rtol 1e-7 (values) / 1e-5 (gradients); float32 runs use tol=1e-5 and rtol 5e-3 / 3e-2',
               'interpreter levels must agree to 1e-12 relative (same arithmetic, assertions are checks only)',
               'bin/sum_product.py is run with -d -l 1e-12 -k 10000 and compared with rtol 2e-10 (float64 accuracy: a silent float32 computation must not pass)']
CLASSES = ('nonrec', 'linear', 'nonlinear', 'mixed')
N_SUB = 2        # interpreter-level cases per run (each spawns 3 interpreters + the CLI)


def plan(tier, seed):
    return dict(n=(64 if tier == 'quick' else 3000) + N_SUB * (1 if tier == 'quick' else 10), budget_s=170 if tier == 'quick' else 840, case_timeout=500, workers=8)


def gen(tier, seed, index):
    rng = G.rng_for(seed, 'C11', tier, index)
    cls = CLASSES[index % len(CLASSES)]
    pool = ['jpre-shape', 'jpre-shape', 'edgeless-internal', 'edgeless-ext', 'shared-factor', 'factor-twice-in-rule', 'ext-also-attached-twice', 'many-rules', 'edge-twice', 'plain', 'unit-base', 'pass-through-self-rule', 'pass-through-self-rule']
    forced = [pool[(index // 4) % len(pool)]]
    if forced == ['jpre-shape'] and rng.random() < 0.5:
        forced.append('edgeless-internal')
    if index % 16 == 9:
        # matrix closure with a sparsely patterned base factor: successive iterates change the size of their storage
        return G.gen_matrix_closure_spec(rng), dict(cls='linear', forced=['patterned-base-dense-recursion'], typed=True)
    if index % 16 == 5:
        # a long path automaton: the support needs many more sweeps than the grammar has nonterminals
        return G.gen_chain_spec(rng), dict(cls='linear', forced=['long-chain'], typed=False)
    spec = G.gen_spec(rng, cls, forced, allow_inf=False, max_nodes=5, max_edges=5)
    return spec, dict(cls=cls, forced=forced, typed=False)


def spec_to_json(spec):
    """FGG JSON written directly from the spec (independent of fggs.formats)"""
    jg = dict(terminals={t: dict(type=list(typ)) for t, typ in spec['terminals'].items()},
              nonterminals={n: dict(type=list(typ)) for n, typ in spec['nonterminals'].items()},
              start=spec['start'], rules=[])
    for ri, r in enumerate(spec['rules']):
        jg['rules'].append(dict(lhs=r['lhs'], rhs=dict(nodes=[dict(label=l, id=f'r{ri}n{vi}') for vi, l in enumerate(r['nodes'])],
                                                       edges=[dict(attachments=list(att), label=lab, id=f'r{ri}e{ei}') for ei, (lab, att) in enumerate(r['edges'])],
                                                       externals=list(r['ext']))))
    ji = dict(domains={l: {'class': 'range', 'size': s} for l, s in spec['domains'].items()},
              factors={t: {'function': 'finite', 'weights': G.weights_in(spec, t, 'real')} for t in spec['terminals']})
    return dict(grammar=jg, interpretation=ji)


def run_config(fggs, spec, S, method, jpre, dtype, grad, cot, zmask=None):
    """returns call outcome with value (dense tensor) and dict of grads"""
    import torch
    builder = G.pattern_weight_builder(fggs, spec, S) if 'patterns' in spec else None
    fgg, info = G.build_fgg(fggs, spec, S, dtype, requires_grad=grad, weight_builder=builder)
    sr = G.make_semiring(fggs, S, dtype)
    tol = 1e-14 if dtype == torch.float64 else 1e-5

    def run():
        z = fggs.sum_product(fgg, method=method, semiring=sr, tol=tol, kmax=10000, j_precompute=jpre).to_dense()
        grads = None
        if grad:
            c = cot.to(dtype)
            if S == 'log':
                loss = (torch.where(zmask, z, torch.zeros_like(z)) * c * zmask).sum()
            else:
                loss = (z * c).sum()
            if loss.requires_grad:
                loss.backward()
            def gof(w):
                g_ = w.grad
                if g_ is None:
                    return None
                # a patterned weight's gradient is known on its storage only (nan elsewhere): compared where it is known
                return g_.detach().clone() if isinstance(g_, torch.Tensor) else g_.to_dense().detach().clone()
            grads = {t: gof(w) for t, w in info['weights'].items()}
        return z.detach(), grads
    return C.call(run)


def check_spec(spec, meta, index):
    import torch
    fggs = env.setup()
    SP = env.mod('fggs.sum_product')
    viols = []
    obs = dict(configurations=0, gradient_comparisons=0, cross_semiring_checks=0, jpre_true_runs=0)
    ref = c03.reference(spec, cot_seed=index)
    if ref is None:
        return dict(verdict='declined', violations=[], obs=obs, nontrivial=False)
    linear_ok = G.is_linear(spec)
    rec = bool(G.recursive_nts(spec))
    start = spec['start']
    feats = G.features_of(spec)
    results = {}
    # j_precompute=True is the recorded open finding D6 whenever some rule has >= 2 edges (the prefix/suffix
    # products are only built then); with single-edge rules only it goes through sum_product_edges and must agree
    multi_edge = any(len(r['edges']) >= 2 for r in spec['rules'])
    with Hooks() as h:
        h.spy(SP, 'J', key='J')
        h.spy(SP, 'J_precompute_products', key='J_precompute_products')
        for S in ('real', 'log'):
            zref, gref = ref['out'][S]
            zmask = torch.isfinite(zref)
            for dtype in (torch.float64, torch.float32):
                f64 = dtype == torch.float64
                for method in ['fixed-point', 'newton'] + (['linear'] if linear_ok else []):
                    for jpre in (False, True):
                        # j_precompute is only consulted by newton's forward J and by the Real-semiring backward;
                        # it is exercised in float64 on newton (both semirings) and on one other Real method
                        if jpre and not (f64 and (method == 'newton' or (S == 'real' and method == 'fixed-point'))):
                            continue
                        if not f64 and method == 'linear':
                            continue
                        if not f64 and ref.get('min_pos') is not None and ref['min_pos'] < 1e-2:
                            # float32 runs stop on an absolute change <= 1e-5: fixed points with entries below 1e-2 have no
                            # relative accuracy to speak of there (nor have the gradients, multilinear in them)
                            obs['float32_skipped_tiny_fixed_point'] = obs.get('float32_skipped_tiny_fixed_point', 0) + 1
                            continue
                        out = run_config(fggs, spec, S, method, jpre, dtype, True, ref['cot'], zmask)
                        obs['configurations'] += 1
                        obs['jpre_true_runs'] += int(jpre)
                        ctx = dict(semiring=S, method=method, j_precompute=jpre, dtype=str(dtype).replace('torch.', ''), cls=meta['cls'])
                        jtag = ('jpre' if multi_edge else 'jpre-single-edge-rules-only') if jpre else 'nojpre'
                        if not out['ok']:
                            viols.append(C.viol(f"exception:{jtag}:{S}:{out['exc_type']}:{out.get('where', '')}", f'sum_product/backward raised {out["exc"]}', context=ctx, traceback=out['tb']))
                            continue
                        if out['warnings']:      # the caller has been warned: an unconverged value is allowed
                            fin = zref[torch.isfinite(zref)]
                            if f64 and rec and (not fin.numel() or float(fin.abs().max()) < 1e3):
                                # ... but not here: spectral radius <= 0.9, kmax = 10000, float64 values far from where rounding
                                # could keep the change above tol -- a method that exhausts this budget is not converging
                                viols.append(C.viol(f'full-budget-exhausted:{jtag}:{S}:{method}', f'kmax=10000 was not enough on a grammar of spectral radius {ref.get("rho")}: {out["warnings"][:1]}', context=ctx))
                            continue
                        z, grads = out['value']
                        obs['compared:' + method] = obs.get('compared:' + method, 0) + 1
                        results[(S, method, jpre, f64)] = z
                        msg = C.close_tensor(z, zref, 'float64' if f64 else 'float32', rtol=1e-7 if f64 else 5e-3, atol=1e-9 if f64 else 1e-4)
                        if msg:
                            viols.append(C.viol(f'value:{jtag}:{S}:{method}', msg, context=ctx))
                            continue
                        for t in spec['terminals']:
                            g, ge = grads[t], gref[t]
                            wd = torch.tensor(G.weights_in(spec, t, S), dtype=torch.float64).reshape(ge.shape)
                            sel = torch.isfinite(wd) if S == 'log' else torch.ones_like(wd, dtype=torch.bool)
                            if g is None:
                                if (ge[sel] != 0).any():
                                    viols.append(C.viol(f'grad-none:{jtag}:{S}:{method}', f'{t}.grad is None, reference {C.short(ge.tolist())}', context=ctx))
                                continue
                            sel = sel & ~torch.isnan(g.to(torch.float64).reshape(ge.shape)) if 'patterns' in spec else sel
                            go, gx = g.to(torch.float64).reshape(ge.shape)[sel], ge[sel]
                            obs['gradient_comparisons'] += int(sel.sum())
                            scale = float(gx.abs().max()) if gx.numel() else 0.0
                            rt, at = (1e-5, 1e-8) if f64 else (3e-2, 2e-4)
                            bad = ~torch.isclose(go, gx, rtol=rt, atol=at * max(1.0, scale)) | torch.isnan(go)
                            if bad.any():
                                i = int(bad.nonzero()[0])
                                shape_feats = sorted(f for f in feats if f in ('jpre-shape', 'ge3-edges', 'edgeless-internal', 'edgeless-ext', 'edge-on-ext', 'edge-twice'))
                                viols.append(C.viol(f'grad:{jtag}:{S}:{method}', f'd/d{t}: observed {go[i].item()!r} expected {gx[i].item()!r}', context=dict(ctx, features=shape_feats)))
                                break
        # cross-semiring relations (float64, default method)
        zr = results.get(('real', 'fixed-point', False, True))
        zl = results.get(('log', 'fixed-point', False, True))
        if zr is not None and zl is not None:
            obs['cross_semiring_checks'] += 1
            # compared in the real domain: the Real iteration stops on an *absolute* change, so log(Z) of a tiny Z
            # is only as accurate as that absolute error allows
            msg = C.close_tensor(zl.exp(), zr, 'float64', rtol=1e-7, atol=1e-9)
            if msg:
                viols.append(C.viol('cross:log-vs-log-of-real', msg))
            for S2 in ('bool', 'viterbi'):
                fgg, _ = G.build_fgg(fggs, spec, S2, torch.float64)
                o = C.call(lambda: fggs.sum_product(fgg, semiring=G.make_semiring(fggs, S2, torch.float64), method='fixed-point', tol=1e-12, kmax=10000).to_dense())
                obs['configurations'] += 1
                if not o['ok']:
                    viols.append(C.viol(f"exception:nojpre:{S2}:{o['exc_type']}:{o.get('where', '')}", f'sum_product raised {o["exc"]}', traceback=o['tb']))
                    continue
                obs['cross_semiring_checks'] += 1
                if S2 == 'bool':
                    if not torch.equal(o['value'], zr > 0):
                        viols.append(C.viol('cross:bool-vs-support-of-real', f'bool={o["value"].tolist()} real={zr.tolist()}'))
                else:
                    if (o['value'] > zl + 1e-9 * zl.abs().clamp(min=1.0)).any() or not torch.equal(torch.isneginf(o['value']), torch.isneginf(zl)):
                        viols.append(C.viol('cross:viterbi-exceeds-log', f'viterbi={o["value"].tolist()} log={zl.tolist()}'))
        hooks = dict(h.count)
    nontrivial = rec or 'ge3-edges' in feats
    return dict(verdict='violated' if viols else 'held', violations=viols, obs=obs, nontrivial=nontrivial, hooks=hooks)


# ------------------------------------------------------------------------------ interpreter levels

SUB_CODE = r'''
import sys, json, os
sys.path.insert(0, os.environ['RV_VERIF'])
from rvlib.core import env
fggs = env.setup()
import torch
from rvlib.checks import c11
from rvlib.gen import fggspec as G
tier, seed, lo, hi = sys.argv[1], int(sys.argv[2]), int(sys.argv[3]), int(sys.argv[4])
out = dict(debug=__debug__, docstrings=(c11.__doc__ is not None), results={})
for index in range(lo, hi):
    spec, meta = c11.gen(tier, seed, index)
    if not c11.quick_conditioned(spec):
        continue
    lin = G.is_linear(spec)
    for S in ('real', 'log'):
        for method in ['fixed-point', 'newton'] + (['linear'] if lin else []):
            for jpre in (False,):
                key = f'{index}|{S}|{method}|{jpre}'
                try:
                    fgg, info = G.build_fgg(fggs, spec, S, torch.float64, requires_grad=True)
                    z = fggs.sum_product(fgg, method=method, semiring=G.make_semiring(fggs, S, torch.float64), tol=1e-12, kmax=10000, j_precompute=jpre).to_dense()
                    zf = torch.where(torch.isfinite(z), z, torch.zeros_like(z))
                    if zf.requires_grad:
                        zf.sum().backward()
                    out['results'][key] = dict(z=[float(x).hex() for x in z.detach().reshape(-1).tolist()],
                                               g={t: ([float(x).hex() for x in w.grad.reshape(-1).tolist()] if w.grad is not None else None) for t, w in info['weights'].items()})
                except Exception as e:
                    out['results'][key] = dict(error=f'{type(e).__name__}: {e}'[:200])
    # the way bin/sum_product.py -d works: float64 selected through the default dtype *after* import,
    # semiring left to its default
    old = torch.get_default_dtype()
    torch.set_default_dtype(torch.float64)
    try:
        for method in ['fixed-point', 'newton'] + (['linear'] if lin else []):
            key = f'{index}|real|{method}|defaulted-semiring'
            try:
                fgg, info = G.build_fgg(fggs, spec, 'real', None)
                z = fggs.sum_product(fgg, method=method, tol=1e-12, kmax=10000).to_dense()
                out['results'][key] = dict(z=[float(x).hex() for x in z.detach().reshape(-1).tolist()], g={}, dtype=str(z.dtype))
            except Exception as e:
                out['results'][key] = dict(error=f'{type(e).__name__}: {e}'[:200])
    finally:
        torch.set_default_dtype(old)
print('RESULT ' + json.dumps(out))
'''


def quick_conditioned(spec):
    """cheap conditioning shared by all interpreter levels: scale until the dense reference converges quickly"""
    import torch
    if not G.recursive_nts(spec):
        return True
    for _ in range(6):
        x, it, ok, hist = R.Dense(spec, 'real').kleene(max_iter=400)
        if ok and all(torch.isfinite(x[n]).all() for n in x):
            return True
        G.scale_recursive(spec, 0.5)
    return False


def cli_compare(spec, methods, index2, envv, viols, obs):
    """bin/sum_product.py under -OO on the spec written as JSON (independent writer): value and -G gradients vs the reference"""
    import torch
    tmpdir = os.path.join(env.VERIF, 'out', 'tmp')
    os.makedirs(tmpdir, exist_ok=True)
    ref = c03.reference(spec, cot_seed=None)      # all-ones cotangent, as the CLI uses
    if ref is None:
        return False
    zref, gref = ref['out']['real']
    path = os.path.join(tmpdir, f'c11_{os.getpid()}_{index2}.json')
    with open(path, 'w') as f:
        json.dump(spec_to_json(spec), f)
    for method in methods:
        cmd = [sys.executable, '-B', '-OO', os.path.join(env.REPO, 'bin', 'sum_product.py'), path, '-d', '-m', method, '-l', '1e-12', '-k', '10000', '-G']
        p = subprocess.run(cmd, env=dict(envv, PYTHONPATH=env.REPO), capture_output=True, text=True, timeout=300)
        obs['cli_runs'] += 1
        ctx = dict(cmd=' '.join(cmd[2:]), spec_index=index2)
        if p.returncode != 0:
            viols.append(C.viol('cli:crash', f'bin/sum_product.py exited {p.returncode}: {p.stderr[-500:]}', context=ctx, spec=spec))
            continue
        lines = [l for l in p.stdout.splitlines() if l.strip()]
        try:
            z = torch.tensor(json.loads(lines[0]), dtype=torch.float64)
        except Exception as e:
            viols.append(C.viol('cli:unparsable', f'first output line {lines[:1]}: {e}', context=ctx))
            continue
        obs['cli_values_compared'] += 1
        # -d selects float64: the printed value must have float64 accuracy (a float32 computation is ~1e-8 off)
        msg = C.close_tensor(z.reshape(zref.shape), zref, 'float64', rtol=2e-10, atol=1e-11)
        if msg:
            viols.append(C.viol('cli:value', msg, context=ctx, spec=spec))
            continue
        # -G prints 'grad[<factor>]: <json>' for every factor
        seen = 0
        for l in lines[1:]:
            if not l.startswith('grad['):
                continue
            name = l[5:l.index(']')]
            try:
                g = torch.tensor(json.loads(l[l.index(':') + 1:]), dtype=torch.float64)
            except Exception as e:
                viols.append(C.viol('cli:unparsable', f'gradient line {l[:80]}: {e}', context=ctx))
                continue
            if name in gref:
                seen += 1
                ge = gref[name]
                obs['cli_gradients_compared'] = obs.get('cli_gradients_compared', 0) + 1
                gg = torch.nan_to_num(g.reshape(ge.shape), nan=0.0) if ge.numel() else g
                scale = float(ge.abs().max()) if ge.numel() else 0.0
                if not torch.allclose(gg, ge, rtol=1e-6, atol=1e-9 * max(1.0, scale)):
                    viols.append(C.viol('cli:gradient', f'grad[{name}] = {C.short(g.tolist(), 200)}, reference {C.short(ge.tolist(), 200)}', context=ctx, spec=spec))
        if seen == 0 and spec['terminals']:
            viols.append(C.viol('cli:no-gradients', '-G printed no gradient', context=ctx))
    try:
        os.remove(path)
    except OSError:
        pass
    return True


def log_tiny_case(tier, seed, index):
    """Log-semiring runs on grammars whose weights are so small that the REAL value underflows float32 (but not the float64
    reference): in the log domain the stopping rule is a relative one, so every method and both dtypes must still give
    log Z -- an implementation that detours through real space returns -inf."""
    import torch
    fggs = env.setup()
    rng = G.rng_for(seed, 'C11tiny', tier, index)
    viols = []
    obs = dict(log_tiny_runs=0, log_tiny_compared=0)
    feats = []
    for j in range(3 if tier == 'quick' else 8):
        spec = G.gen_chain_spec(rng) if j % 2 == 0 else G.gen_private_dependency_spec(rng, wdomain='real')
        # every terminal weight times 1e-9 ... 1e-12: a derivation with >= 4 terminals has a weight below 1e-38
        k = rng.choice([1e-9, 1e-10, 1e-12])
        for t in spec['terminals']:
            spec['weights'][t] = G.map_nested(spec['weights'][t], lambda x: x * k)
        d = R.Dense(spec, 'real')
        x, it, ok, hist = d.kleene(max_iter=3000)
        if not ok:
            continue
        z = x[spec['start']].to(torch.float64)
        if not bool((z > 0).any()) or bool((z[z > 0] < 1e-290).any()):
            continue
        zlog = torch.where(z > 0, z.log(), torch.full_like(z, -math.inf))
        tiny32 = bool((z[z > 0] < 1e-38).any())
        feats.append('real-value-underflows-float32' if tiny32 else 'real-value-representable')
        lin = G.is_linear(spec)
        for dtype in (torch.float32, torch.float64):
            for method in ['fixed-point', 'newton'] + (['linear'] if lin else []):
                fgg, _ = G.build_fgg(fggs, spec, 'log', dtype)
                sr = G.make_semiring(fggs, 'log', dtype)
                out = C.call(lambda: fggs.sum_product(fgg, method=method, semiring=sr, tol=1e-5 if dtype == torch.float32 else 1e-12, kmax=10000).to_dense())
                obs['log_tiny_runs'] += 1
                ctx = dict(semiring='log', method=method, dtype=str(dtype).replace('torch.', ''), weight_scale=k, reference=zlog.tolist())
                if not out['ok']:
                    viols.append(C.viol(f"exception:log-tiny:{method}:{out['exc_type']}:{out.get('where', '')}", f'sum_product raised {out["exc"]}', context=ctx, spec=spec))
                    continue
                if out['warnings']:
                    continue
                obs['log_tiny_compared'] += 1
                got = out['value'].to(torch.float64)
                tol = 1e-2 if dtype == torch.float32 else 1e-7
                same_inf = torch.equal(torch.isneginf(got), torch.isneginf(zlog))
                fin = ~torch.isneginf(zlog)
                if not same_inf or not bool(((got[fin] - zlog[fin]).abs() <= tol * zlog[fin].abs().clamp(min=1.0)).all()):
                    viols.append(C.viol(f'value:log-tiny:{method}:{ctx["dtype"]}', f'log Z = {C.short(got.tolist())}, reference (float64 real, then log) {C.short(zlog.tolist())}', context=ctx, spec=spec))
    return dict(cls='log-tiny-weights', features=sorted(set(feats)), verdict='violated' if viols else 'held', violations=viols, obs=obs, nontrivial=bool(feats),
                key=f'logtiny{index}.{seed}', evals=max(1, obs['log_tiny_runs']), sample=dict(block='Log semiring on weights scaled by 1e-9..1e-12', cases=feats))


def cli_corner_specs(rng):
    """hand-shaped grammars on which the command-line tool has to cope with factors that take part in no derivation,
    a sum-product that depends on no factor at all, a zero-valued start symbol, nullary factors, start arity 2"""
    w1 = lambda n: [round(rng.uniform(0.1, 0.9), 3) for _ in range(n)]
    out = []
    out.append(('unused-factor', dict(domains={'L0': 2}, terminals={'f0': ['L0'], 'f1': ['L0']}, nonterminals={'S': []}, start='S',
                                      rules=[dict(lhs='S', nodes=['L0'], ext=[], edges=[['f0', [0]]])], weights={'f0': w1(2), 'f1': w1(2)}, wdomain='real')))
    out.append(('no-factor-participates', dict(domains={'L0': 3}, terminals={'f0': ['L0']}, nonterminals={'S': ['L0']}, start='S',
                                               rules=[dict(lhs='S', nodes=['L0'], ext=[0], edges=[])], weights={'f0': w1(3)}, wdomain='real')))
    out.append(('zero-start', dict(domains={'L0': 2}, terminals={'f0': ['L0']}, nonterminals={'S': [], 'X': ['L0']}, start='S',
                                   rules=[dict(lhs='S', nodes=['L0'], ext=[], edges=[['X', [0]], ['f0', [0]]])], weights={'f0': w1(2)}, wdomain='real')))
    p = round(rng.uniform(0.05, 0.2), 3)
    out.append(('unit-base-catalan', dict(domains={'L0': 2}, terminals={'f0': []}, nonterminals={'S': []}, start='S',
                                          rules=[dict(lhs='S', nodes=[], ext=[], edges=[]), dict(lhs='S', nodes=[], ext=[], edges=[['f0', []], ['S', []], ['S', []]])],
                                          weights={'f0': p}, wdomain='real')))
    out.append(('start-arity-2-edgeless-ext', dict(domains={'L0': 2, 'L1': 3}, terminals={'f0': ['L0']}, nonterminals={'S': ['L0', 'L1']}, start='S',
                                                   rules=[dict(lhs='S', nodes=['L0', 'L1', 'L1'], ext=[0, 1], edges=[['f0', [0]]])], weights={'f0': w1(2)}, wdomain='real')))
    return out


def cli_corner_case(tier, seed, index):
    fggs = env.setup()
    viols = []
    obs = dict(cli_runs=0, cli_values_compared=0, cli_corner_specs=0)
    rng = G.rng_for(seed, 'C11cli', tier, index)
    envv = dict(os.environ, RV_VERIF=env.VERIF, RV_REPO=env.REPO, PYTHONPATH=env.VERIF, PYTHONDONTWRITEBYTECODE='1', OMP_NUM_THREADS='1', FGGS_VERIF='1')
    feats = []
    for j, (name, spec) in enumerate(cli_corner_specs(rng)):
        methods = [['newton'], ['fixed-point']][(index + j) % 2] if tier == 'quick' else ['newton', 'fixed-point']
        if cli_compare(spec, methods, 5000 + 10 * index + j, envv, viols, obs):
            obs['cli_corner_specs'] += 1
            feats.append('cli-' + name)
    return dict(cls='cli-corner-cases', features=feats, verdict='violated' if viols else 'held', violations=viols, obs=obs, nontrivial=True,
                key=f'cli{index}.{seed}', evals=max(1, obs['cli_values_compared']), sample=dict(block='bin/sum_product.py corner cases', specs=feats))


def sub_case(tier, seed, index, k):
    """k-th interpreter-level case: a batch of specs under python / -O / -OO, and the CLI under -OO"""
    import torch
    fggs = env.setup()
    viols = []
    obs = dict(interpreter_runs=0, interpreter_results_compared=0, cli_runs=0, cli_values_compared=0)
    lo, hi = 1000 + k * 8, 1000 + (k + 1) * 8
    envv = dict(os.environ, RV_VERIF=env.VERIF, RV_REPO=env.REPO, PYTHONPATH=env.VERIF, PYTHONDONTWRITEBYTECODE='1', OMP_NUM_THREADS='1', FGGS_VERIF='1')
    procs = {}
    for level, flag in (('debug', []), ('-O', ['-O']), ('-OO', ['-OO'])):
        procs[level] = subprocess.Popen([sys.executable, '-B'] + flag + ['-c', SUB_CODE, tier, str(seed), str(lo), str(hi)], env=envv, cwd=env.VERIF,
                                        stdout=subprocess.PIPE, stderr=subprocess.PIPE, text=True)
    outs = {}
    for level, p in procs.items():
        try:
            so, se = p.communicate(timeout=300)
        except subprocess.TimeoutExpired:
            p.kill()
            return dict(cls='interpreter-levels', verdict='declined', violations=[], obs=obs, nontrivial=False, key=f'sub{k}', features=['subprocess-timeout'])
        obs['interpreter_runs'] += 1
        line = next((l for l in so.splitlines() if l.startswith('RESULT ')), None)
        if p.returncode != 0 or line is None:
            viols.append(C.viol(f'interpreter:{level}:crash', f'python {level} run exited {p.returncode}: {se[-600:]}'))
            continue
        outs[level] = json.loads(line[7:])
    if 'debug' in outs:
        if outs['debug']['debug'] is not True or ('-O' in outs and outs['-O']['debug'] is not False) or ('-OO' in outs and outs['-OO']['docstrings'] is not False):
            return dict(cls='interpreter-levels', verdict='declined', violations=[], obs=obs, nontrivial=False, key=f'sub{k}', features=['levels-not-effective'])
        base = outs['debug']['results']
        for level in ('-O', '-OO'):
            if level not in outs:
                continue
            other = outs[level]['results']
            for key, rb in base.items():
                ro = other.get(key)
                obs['interpreter_results_compared'] += 1
                if ro is None:
                    viols.append(C.viol(f'interpreter:{level}:missing', f'{key} missing under {level}'))
                    continue
                if ('error' in rb) != ('error' in ro):
                    viols.append(C.viol(f'interpreter:{level}:error-differs', f'{key}: debug={rb.get("error")} {level}={ro.get("error")}'))
                    continue
                if 'error' in rb:
                    continue

                def cmp(a, b):
                    if a is None or b is None:
                        return a is None and b is None
                    xa = [float.fromhex(x) for x in a]
                    xb = [float.fromhex(x) for x in b]
                    return len(xa) == len(xb) and all((x == y) or (x != x and y != y) or abs(x - y) <= 1e-12 * max(1.0, abs(x)) for x, y in zip(xa, xb))
                if not cmp(rb['z'], ro['z']) or any(not cmp(rb['g'][t], ro['g'].get(t)) for t in rb['g']):
                    viols.append(C.viol(f'interpreter:{level}:result-differs', f'{key}: results differ between debug and {level}: {rb["z"][:3]} vs {ro["z"][:3]}'))
    # float64 selected through the default dtype with a defaulted semiring must equal the explicitly typed float64 run
    for level, o in outs.items():
        for key, r in o['results'].items():
            if not key.endswith('|defaulted-semiring') or 'error' in r:
                if key.endswith('|defaulted-semiring') and 'error' in r:
                    viols.append(C.viol(f'defaulted-semiring:{level}:error', f'{key}: {r["error"]}'))
                continue
            ref_ = o['results'].get(key.replace('|defaulted-semiring', '|False'))
            if ref_ is None or 'error' in ref_:
                continue
            obs['interpreter_results_compared'] += 1
            xa = [float.fromhex(x) for x in r['z']]
            xb = [float.fromhex(x) for x in ref_['z']]
            if r.get('dtype') != 'torch.float64' or len(xa) != len(xb) or any(not ((x == y) or abs(x - y) <= 1e-10 * max(1e-3, abs(y))) for x, y in zip(xa, xb)):
                viols.append(C.viol(f'defaulted-semiring:{level}:differs', f'{key}: default dtype float64 + default semiring gives {xa[:3]} ({r.get("dtype")}), explicit float64 semiring gives {xb[:3]}'))
    # command-line tool under -OO
    for index2 in range(lo, lo + 2):
        spec, meta = gen(tier, seed, index2)
        if not quick_conditioned(spec):
            continue
        lin = G.is_linear(spec)
        methods = (['newton', 'linear'] if lin and index2 % 2 else ['newton', 'fixed-point'])[:2 if tier == 'thorough' else 1 + (index2 % 2)]
        cli_compare(spec, methods, index2, envv, viols, obs)
    return dict(cls='interpreter-levels', features=['python', '-O', '-OO', 'bin/sum_product.py'], verdict='violated' if viols else 'held', violations=viols, obs=obs,
                nontrivial=True, key=f'sub{k}.{seed}', evals=max(1, obs['interpreter_results_compared'] + obs['cli_values_compared']),
                sample=dict(block='interpreter levels', specs=[lo, hi], levels=list(outs)))


def run_case(tier, seed, index, spec=None, meta=None):
    nsub = N_SUB * (1 if tier == 'quick' else 10)
    if spec is None and index < nsub:          # interpreter-level cases first: they are the long poles
        return sub_case(tier, seed, index, index)
    if spec is None and index == nsub:
        return cli_corner_case(tier, seed, index)
    if spec is None and index == nsub + 1:
        return log_tiny_case(tier, seed, index)
    if spec is None:
        spec, meta = gen(tier, seed, index)
    res = check_spec(spec, meta, index)
    feats = sorted(G.features_of(spec))
    res.update(cls=meta['cls'], features=feats, key=G.spec_key(spec), evals=max(1, res['obs']['configurations']), sample=dict(spec=G.describe(spec), meta=meta))
    for v in res['violations']:
        v['spec'] = spec
        v['meta'] = meta
    return res


def replay(rep):
    if 'spec' in rep and 'meta' in rep:
        return run_case(rep['tier'], rep['seed'], rep['index'], rep['spec'], rep['meta'])
    return run_case(rep['tier'], rep['seed'], rep['index'])


def finalize(tot, tier, seed):
    inc = []
    for k in ('J', 'J_precompute_products'):
        if tot['hooks'].get(k, 0) == 0:
            inc.append(f'hook {k} never reached')
    for m in ('fixed-point', 'newton', 'linear'):
        if tot['obs'].get('compared:' + m, 0) == 0:
            inc.append(f'method {m}: every run ended in a warning or an exception, nothing was compared')
    for k in ('configurations', 'gradient_comparisons', 'cross_semiring_checks', 'jpre_true_runs', 'interpreter_runs', 'interpreter_results_compared', 'cli_runs', 'cli_values_compared', 'cli_gradients_compared', 'cli_corner_specs', 'log_tiny_compared'):
        if tot['obs'].get(k, 0) == 0:
            inc.append(f'{k} never observed')
    if tot['features'].get('levels-not-effective', 0) or tot['features'].get('subprocess-timeout', 0):
        inc.append('interpreter-level runs were not effective')
    for f in ('jpre-shape', 'ge3-edges', 'edgeless-internal', 'recursive'):
        if tot['features'].get(f, 0) == 0:
            inc.append(f'feature {f} never generated')
    return {}, inc


ALLOW_DECLINE = {}
