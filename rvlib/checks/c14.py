"""C14 — JSON serialisation round-trips grammars and weights.

Boundary monitor on fgg_to_json / json_to_fgg / hrg_to_json / json_to_hrg / json_to_weights; the
reloaded grammar is compared with the original through the public accessors only (independent
isomorphism checker, explicit ids, domains, dense weights, sum-product); json_to_weights is
compared with an independent evaluation of the weight specification (oracle/axis_ref);
hand-mutated JSON with out-of-range / negative node numbers must be rejected with ValueError."""
import copy, json, math
from . import common as C
from ..core import env
from ..gen import fggspec as G
from ..gen import types_patterns as TP
from ..oracle import axis_ref as A
from ..oracle import iso

PROPERTY = 'C14'
RULE = ('grammar cases: generated FGG specs realised with explicit / implicit / mixed ids, range or finite domains (JSON-native str/int/float '
        'values), dense or patterned weights incl. zero and infinite entries, float32 or float64 default dtype, start arity 0 or > 0, then '
        'fgg_to_json -> json.dumps -> json.loads -> json_to_fgg (and the HRG variants), second round trip, and index mutations of the JSON; '
        'weight cases: random patterned weight specifications (physical/expand/vaxes/default). evaluations = grammars + weight specs; '
        'non-trivial = grammar with >= 2 rules and some implicit id, or weight spec with a non-trivial axis; distinct = input hashes')
ASSUMPTIONS = ['domain values are JSON-native and pairwise distinct under == (a tuple comes back as an unhashable list: JSON\'s doing)',
               'weights are compared by value after the reload into the current default dtype', 'rules have pairwise distinct external nodes']


def plan(tier, seed):
    return dict(n=1500 if tier == 'quick' else 200000, budget_s=70 if tier == 'quick' else 840, case_timeout=120)


def lkey(l):
    return (l.name, l.is_terminal, tuple(x.name for x in l.type))


def grammar_view(g):
    """what the statement says must be preserved, read through public accessors"""
    rules = []
    for r in g.all_rules():
        nodes = list(r.rhs.nodes())
        rules.append(dict(lhs=lkey(r.lhs), plain=iso.from_graph(r.rhs),
                          node_ids=sorted((n.id, n.label.name) for n in nodes if n.persist_id),
                          n_implicit_nodes=sum(1 for n in nodes if not n.persist_id),
                          edge_ids=sorted((e.id, e.label.name, tuple(n.id if n.persist_id else None for n in e.nodes)) for e in r.rhs.edges() if e.persist_id),
                          n_implicit_edges=sum(1 for e in r.rhs.edges() if not e.persist_id),
                          ext_ids=[n.id if n.persist_id else None for n in r.rhs.ext]))
    return dict(start=lkey(g.start), terminals=sorted(lkey(l) for l in g.terminals()), nonterminals=sorted(lkey(l) for l in g.nonterminals()), rules=rules)


def compare_grammars(a, b, V, tag):
    for k in ('start', 'terminals', 'nonterminals'):
        if a[k] != b[k]:
            V(f'roundtrip:{k}', f'{tag}: {k} differ: {a[k]} vs {b[k]}')
            return
    lhss = []
    for r in a['rules']:
        if r['lhs'] not in lhss:
            lhss.append(r['lhs'])
    if sorted(set(r['lhs'] for r in b['rules'])) != sorted(set(lhss)):
        V('roundtrip:rule-lhs', f'{tag}: left-hand sides differ')
        return
    for lhs in lhss:
        ra = [r for r in a['rules'] if r['lhs'] == lhs]
        rb = [r for r in b['rules'] if r['lhs'] == lhs]
        if len(ra) != len(rb):
            V('roundtrip:rule-count', f'{tag}: {lhs[0]} has {len(ra)} rules before and {len(rb)} after')
            return
        for k, (x, y) in enumerate(zip(ra, rb)):
            if not iso.isomorphic(x['plain'], y['plain']):
                V('roundtrip:rule-not-isomorphic', f'{tag}: rule {k} of {lhs[0]} is not isomorphic after the round trip (in order)')
                return
            for f in ('node_ids', 'n_implicit_nodes', 'edge_ids', 'n_implicit_edges', 'ext_ids'):
                if x[f] != y[f]:
                    V(f'roundtrip:{f}', f'{tag}: rule {k} of {lhs[0]}: {f} {x[f]} vs {y[f]}')
                    return


def grammar_case(fggs, rng, tier, seed, index, viols, obs):
    import torch
    F = env.mod('fggs.formats')
    cls = G.CLASSES[index % len(G.CLASSES)]
    typed = index % 4 == 1
    forced = [rng.choice(['start-arity', 'inf-weight', 'zero-weight', 'edgeless-internal', 'edgeless-ext', 'nullary', 'edge-twice', 'many-rules', 'nt-without-rules', 'plain'])]
    if typed and rng.random() < 0.6:
        forced.append('size1-domain')
    spec = G.gen_spec(rng, cls if not typed else 'nonrec', forced, allow_inf=True, typed=typed)
    if typed:
        # a factor's weights may be any tensor: defaults other than zero are written out element by element
        for t, ps in spec['patterns'].items():
            if rng.random() < 0.5:
                ps['default'] = rng.choice([0.5, 2.0, 1.0])
                spec['weights'][t] = A.densify(ps)[0]
    if index % 6 == 4 and spec['rules']:
        # the same rule twice (with the id scheme that ignores the rule index the two copies are equal graphs): a grammar
        # may list a rule several times, and each copy counts
        spec['rules'].insert(rng.randrange(len(spec['rules']) + 1), copy.deepcopy(rng.choice(spec['rules'])))
    unused = not typed and (index // 3) % 4 == 1
    if unused:
        # labels that are declared (and, for the terminal, interpreted) but occur in no rule
        lab = rng.choice(sorted(spec['domains']))
        spec['terminals']['t_unused'] = [lab]
        spec['weights']['t_unused'] = [0.5 + i for i in range(spec['domains'][lab])]
        spec['nonterminals']['N_unused'] = [lab] if rng.random() < 0.5 else []
    idmode = ['explicit', 'implicit', 'mixed'][(index // 4) % 3]
    default64 = (index // 12) % 2 == 0
    wdtype = torch.float32 if index % 5 == 2 else torch.float64
    domvals = None
    kind = 'range'
    if index % 3 != 0:
        kind = 'finite'
        domvals = {}
        for l, s in spec['domains'].items():
            t = rng.choice(['str', 'int', 'float'])
            domvals[l] = [f'{l}_{i}' for i in range(s)] if t == 'str' else [10 + 3 * i for i in range(s)] if t == 'int' else [0.5 + i for i in range(s)]
    builder = G.pattern_weight_builder(fggs, spec, 'real') if typed else None
    order = list(range(len(spec['rules'])))
    rng.shuffle(order)
    old_default = torch.get_default_dtype()
    torch.set_default_dtype(torch.float64 if default64 else torch.float32)
    odd_ids = idmode != 'implicit' and ((index // 7) % 3 == 0 or index % 6 == 4)      # '', '0', 'None', ' ' ... are ids like any other
    info_ = dict(idmode=idmode, domains=kind, patterned=typed, weight_dtype=str(wdtype), default_dtype='float64' if default64 else 'float32', odd_ids=odd_ids)

    def V(sig, msg, **kw):
        viols.append(C.viol(sig, msg, spec=spec, setup=info_, **kw))
    try:
        g, info = G.build_fgg(fggs, spec, 'real', wdtype, explicit_ids={'explicit': True, 'implicit': False, 'mixed': 'mixed'}[idmode],
                              rule_order=order, domain_kind=kind, domain_values=domvals, weight_builder=builder,
                              id_namer=G.odd_id_namer if odd_ids else None)
        const = None
        if unused and index % 2 == 0 and hasattr(env.mod('fggs.factors'), 'ConstantFactor'):
            # the other factor class: a declared terminal (used by no rule) interpreted by a ConstantFactor
            lab_c = rng.choice(sorted(spec['domains']))
            el_c = fggs.EdgeLabel('t_const', [info['nl'][lab_c]], is_terminal=True)
            g.add_edge_label(el_c)
            const = env.mod('fggs.factors').ConstantFactor([g.domains[info['nl'][lab_c].name]], 2.5)
            g.add_factor(el_c, const)
            info_['constant_factor'] = True
        out = C.call(F.fgg_to_json, g)
        obs['to_json_calls'] += 1
        if not out['ok']:
            V(f"exception:fgg_to_json:{out['exc_type']}:{out.get('where', '')}", f'fgg_to_json raised {out["exc"]}', traceback=out['tb'])
            return spec, info_
        j1 = out['value']
        try:
            text = json.dumps(j1)
        except Exception as e:
            V('json.dumps-rejects', f'json.dumps rejected the object: {type(e).__name__}: {e}')
            return spec, info_
        # explicit ids given through the API are the ids written (read off the JSON object itself)
        jn = sorted(n['id'] for r in j1['grammar']['rules'] for n in r['rhs']['nodes'] if 'id' in n)
        je = sorted(e['id'] for r in j1['grammar']['rules'] for e in r['rhs']['edges'] if 'id' in e)
        obs['id_lists_compared'] = obs.get('id_lists_compared', 0) + 1
        if jn != sorted(info['given_ids']['n']) or je != sorted(info['given_ids']['e']):
            V('explicit-ids-not-written', f'ids given: nodes {sorted(info["given_ids"]["n"])} edges {sorted(info["given_ids"]["e"])}; ids in the JSON: nodes {jn} edges {je}')
        out = C.call(F.json_to_fgg, json.loads(text))
        obs['from_json_calls'] += 1
        if not out['ok']:
            V(f"exception:json_to_fgg:{out['exc_type']}:{out.get('where', '')}", f'json_to_fgg of the produced JSON raised {out["exc"]}', traceback=out['tb'])
            return spec, info_
        g2 = out['value']
        # JSON-side variant: rename the explicit ids *in the JSON text* (pure data manipulation) to odd but valid
        # strings; the loaded grammar must persist exactly those
        if (index // 5) % 2 == 0:
            jx = json.loads(text)
            want_n, want_e = [], []
            for r in jx['grammar']['rules']:
                for kind_, items, want in (('n', r['rhs']['nodes'], want_n), ('e', r['rhs']['edges'], want_e)):
                    k = 0
                    for it in items:
                        if 'id' in it:
                            it['id'] = G.odd_id_namer(kind_, 0, k) if k < len(G.ODD_IDS) else it['id']
                            k += 1
                            want.append(it['id'])
            ox = C.call(F.json_to_fgg, jx)
            obs['from_json_calls'] += 1
            if not ox['ok']:
                V(f"exception:json_to_fgg:odd-ids:{ox['exc_type']}:{ox.get('where', '')}", f'json_to_fgg of JSON with ids {want_n[:4]} raised {ox["exc"]}', traceback=ox['tb'])
            else:
                got_n = sorted(n.id for r in ox['value'].all_rules() for n in r.rhs.nodes() if n.persist_id)
                got_e = sorted(e.id for r in ox['value'].all_rules() for e in r.rhs.edges() if e.persist_id)
                if got_n != sorted(want_n) or got_e != sorted(want_e):
                    V('explicit-ids-not-loaded', f'ids in the JSON: nodes {sorted(want_n)} edges {sorted(want_e)}; persistent ids of the loaded grammar: nodes {got_n} edges {got_e}')
        va, vb = grammar_view(g), grammar_view(g2)
        compare_grammars(va, vb, V, 'fgg round trip')
        obs['iso_checks'] += len(va['rules'])
        # domains and factors
        if set(g.domains) != set(g2.domains):
            V('roundtrip:domain-names', f'{sorted(g.domains)} vs {sorted(g2.domains)}')
        else:
            for k, d in g.domains.items():
                d2 = g2.domains[k]
                if type(d).__name__ != type(d2).__name__ or d.size() != d2.size() or (hasattr(d, 'values') and list(d.values) != list(d2.values)) or not (d == d2):
                    V('roundtrip:domain', f'domain {k}: {d.to_json()} vs {d2.to_json()}')
        if set(g.factors) != set(g2.factors):
            V('roundtrip:factor-names', f'{sorted(g.factors)} vs {sorted(g2.factors)}')
        else:
            for k, f in g.factors.items():
                if const is not None and f is const:
                    obs['constant_factors_compared'] = obs.get('constant_factors_compared', 0) + 1
                    f2 = g2.factors[k]
                    if type(f2).__name__ != 'ConstantFactor' or not (f2 == const) or getattr(f2, 'weight', None) != 2.5:
                        V('roundtrip:constant-factor', f'ConstantFactor(weight 2.5) came back as {type(f2).__name__} with weight {getattr(f2, "weight", None)!r}')
                    continue
                w1 = A.densify_pt(f.weights).to(torch.get_default_dtype())
                w2 = A.densify_pt(g2.factors[k].weights)
                obs['weights_compared'] += 1
                if w2.dtype != torch.get_default_dtype() or tuple(w1.shape) != tuple(w2.shape) or not torch.equal(w1, w2):
                    V('roundtrip:weights', f'factor {k}: {C.short(w1.tolist())} vs {C.short(w2.tolist())}')
        if not viols:
            # same sum-product (default dtype)
            sr = fggs.RealSemiring()
            a = C.call(lambda: fggs.sum_product(json_copy_fgg(fggs, F, j1), semiring=sr, kmax=30).to_dense())
            if wdtype == torch.get_default_dtype():
                b = C.call(lambda: fggs.sum_product(g, semiring=sr, kmax=30).to_dense())
                obs['sum_product_compared'] += 1
                if a['ok'] and b['ok'] and (a['warnings'] or b['warnings']):
                    obs['sum_product_unconverged_skipped'] = obs.get('sum_product_unconverged_skipped', 0) + 1     # kmax ran out: rounding differences are amplified without bound
                elif a['ok'] and b['ok']:
                    ok = torch.allclose(a['value'], b['value'], rtol=1e-5, atol=1e-7, equal_nan=True)
                    if not ok:
                        V('roundtrip:sum-product', f'{a["value"].tolist()} vs {b["value"].tolist()}')
                elif a['ok'] != b['ok']:
                    V('roundtrip:sum-product-one-side-fails', f'{a["exc"]} vs {b["exc"]}')
        # serialise, re-assign a factor's weights through the setter, serialise again: the second JSON carries the new weights
        fin = [k for k, f in g.factors.items() if hasattr(f, 'weights') and f is not const]
        if fin and index % 4 == 2:
            k0 = sorted(fin)[index % len(fin)]
            f0 = g.factors[k0]
            dense0 = A.densify_pt(f0.weights).clone()
            neww = torch.where(torch.isfinite(dense0), dense0 + 1.0, dense0)
            oset = C.call(lambda: setattr(f0, 'weights', neww.clone()))
            if oset['ok']:
                oj = C.call(F.fgg_to_json, g)
                obs['reserialised_after_weight_change'] = obs.get('reserialised_after_weight_change', 0) + 1
                if oj['ok']:
                    try:
                        back = A.densify_pt(F.json_to_weights(json.loads(json.dumps(oj['value']['interpretation']['factors'][k0]['weights']))))
                        exp_ = neww.to(torch.get_default_dtype())
                        if tuple(back.shape) != tuple(exp_.shape) or not bool(((back == exp_) | (torch.isnan(back) & torch.isnan(exp_))).all()):
                            V('stale-weights-in-second-json', f'factor {k0}: weights were re-assigned after the first fgg_to_json; the second JSON still describes {C.short(back.tolist())}, not {C.short(exp_.tolist())}')
                    except Exception as e:
                        V(f'exception:reserialise:{type(e).__name__}', str(e)[:200])
        # second round trip
        out = C.call(F.fgg_to_json, g2)
        if out['ok']:
            j2 = out['value']
            if idmode == 'explicit' and wdtype == torch.get_default_dtype():     # otherwise the reload rounds the weights to the default dtype
                obs['verbatim_checks'] += 1
                if json.dumps(j1, sort_keys=True) != json.dumps(j2, sort_keys=True):
                    d = [k for k in ('grammar', 'interpretation') if json.dumps(j1.get(k), sort_keys=True) != json.dumps(j2.get(k), sort_keys=True)]
                    V('second-roundtrip-not-verbatim', f'all ids explicit, but the second round trip differs in {d}')
        # HRG variants
        out = C.call(F.hrg_to_json, g)
        if not out['ok']:
            V(f"exception:hrg_to_json:{out['exc_type']}", out['exc'])
        else:
            o2 = C.call(F.json_to_hrg, json.loads(json.dumps(out['value'])))
            if not o2['ok']:
                V(f"exception:json_to_hrg:{o2['exc_type']}:{o2.get('where', '')}", o2['exc'], traceback=o2['tb'])
            else:
                compare_grammars(va, grammar_view(o2['value']), V, 'hrg round trip')
        # rejection of out-of-range / negative node numbers
        for m in range(4):
            jm = copy.deepcopy(j1)
            rules = [r for r in jm['grammar']['rules']]
            if not rules:
                break
            r = rng.choice(rules)
            n = len(r['rhs']['nodes'])
            bad = rng.choice([n, n + 3, -1, -n if n else -1, -n - 1])
            slots = [('externals', i) for i in range(len(r['rhs'].get('externals', [])))] + [('edge', ei, ai) for ei, e in enumerate(r['rhs']['edges']) for ai in range(len(e['attachments']))]
            if not slots:
                continue
            sl = rng.choice(slots)
            if sl[0] == 'externals':
                r['rhs']['externals'][sl[1]] = bad
            else:
                r['rhs']['edges'][sl[1]]['attachments'][sl[2]] = bad
            o = C.call(F.json_to_fgg, jm)
            obs['rejection_attempts'] += 1
            kind_ = ('negative' if bad < 0 else 'too-large') + ('-external' if sl[0] == 'externals' else '-attachment')
            if o['ok']:
                V(f'accepts-invalid-node-number:{kind_}', f'json_to_fgg accepted node number {bad} (rule has {n} nodes) as {sl[0]}')
            elif o['exc_type'] != 'ValueError':
                V(f'invalid-node-number-other-exception:{o["exc_type"]}', f'node number {bad}: {o["exc"]}')
    finally:
        torch.set_default_dtype(old_default)
    return spec, info_


def json_copy_fgg(fggs, F, j):
    return F.json_to_fgg(json.loads(json.dumps(j)))


def weights_case(fggs, rng, index, viols, obs):
    """json_to_weights on a patterned specification vs an independent evaluation"""
    import torch
    F = env.mod('fggs.formats')
    ts = TP.common_types(rng, depth=2, max_numel=8, max_total=200)
    if rng.random() < 0.3:
        ts.insert(rng.randrange(len(ts) + 1), ('atom', 1))        # a size-1 argument position next to patterned ones
    ps = TP.gen_pattern(rng, ts, lambda: rng.choice([0.0, 1.0, 2.5, -1.5, 0.5, math.inf]), rng.choice([0.0, 0.0, 1.0, -math.inf, 0.5]), expand_p=0.0, shuffle=True)
    psz = ps['psizes']
    # "expand": leading physical axes that are broadcast; the JSON stores only the remaining ones
    nexp = rng.choice([0, 0, 1, 2]) if psz else 0
    nexp = min(nexp, len(psz))
    expand = list(psz[:nexp])
    phys = ps['physical']
    for _ in range(nexp):
        phys = phys[0] if isinstance(phys, list) and phys else phys     # first slice along each expanded axis
    # the denoted tensor: physical broadcast along the expanded axes
    def build(prefix_sizes, inner):
        if not prefix_sizes:
            return inner
        return [build(prefix_sizes[1:], inner) for _ in range(prefix_sizes[0])]
    ps_eff = dict(ps, physical=build(expand, phys) if nexp else ps['physical'])
    mode = index % 5
    jspec = dict(physical=phys, vaxes=ps['vaxes'])
    if nexp:
        jspec['expand'] = expand
    if mode != 1:
        jspec['default'] = ps['default']
    else:
        ps_eff['default'] = 0.0          # documented default
    if any(0 in [s] for s in psz):
        return None
    try:
        dense, _ = A.densify(ps_eff)
    except ValueError:
        return None
    exp = torch.tensor(dense, dtype=torch.get_default_dtype()).reshape(A.shape_of(ps_eff))
    text = json.dumps(jspec)
    out = C.call(F.json_to_weights, json.loads(text))
    obs['json_to_weights_calls'] += 1
    ctx = dict(weight_spec=jspec)
    if not out['ok']:
        viols.append(C.viol(f"exception:json_to_weights:{out['exc_type']}:{out.get('where', '')}", f'json_to_weights raised {out["exc"]}', context=ctx, traceback=out['tb']))
    else:
        got = A.densify_pt(out['value'])
        if tuple(got.shape) != tuple(exp.shape) or not bool(((got == exp) | (torch.isnan(got) & torch.isnan(exp))).all()):
            viols.append(C.viol('json_to_weights:value', f'denotes {C.short(got.tolist())}, specification describes {C.short(exp.tolist())}', context=ctx))
        inv = A.check_invariant(out['value'])
        if inv:
            viols.append(C.viol('json_to_weights:invariant', inv, context=ctx))
    # the writer's side: a factor over these weights is written element by element (FiniteFactor.to_json), whatever
    # the pattern and the default, and read back to the same dense tensor
    if all(s > 0 for s in A.shape_of(ps_eff)) and A.shape_of(ps_eff):
        FA = env.mod('fggs.factors')
        I = env.mod('fggs.indices')
        pt = TP.realise(I, ps_eff, torch.get_default_dtype())
        doms = [fggs.RangeDomain(n) for n in A.shape_of(ps_eff)]
        ow = C.call(lambda: FA.FiniteFactor(doms, pt).to_json())
        obs['factor_to_json_calls'] = obs.get('factor_to_json_calls', 0) + 1
        if not ow['ok']:
            viols.append(C.viol(f"exception:FiniteFactor.to_json:{ow['exc_type']}:{ow.get('where', '')}", f'to_json raised {ow["exc"]}', context=ctx, traceback=ow['tb']))
        else:
            try:
                jw = json.loads(json.dumps(ow['value']['weights']))
            except Exception as e:
                jw = None
                viols.append(C.viol('FiniteFactor.to_json:not-serialisable', f'{type(e).__name__}: {e}', context=ctx))
            if jw is not None:
                ol = C.call(F.json_to_weights, jw)
                if not ol['ok']:
                    viols.append(C.viol(f"exception:json_to_weights:written-weights:{ol['exc_type']}", f'json_to_weights of the written weights raised {ol["exc"]}', context=ctx))
                else:
                    back = A.densify_pt(ol['value'])
                    if tuple(back.shape) != tuple(exp.shape) or not bool(((back == exp) | (torch.isnan(back) & torch.isnan(exp))).all()):
                        viols.append(C.viol('FiniteFactor.to_json:value', f'weights {TP.depict(ps_eff)} written as {C.short(jw)}, which denotes another tensor than {C.short(exp.tolist())}', context=ctx))
    # dense nested list form and the dict form without "vaxes" (physical [+ expand] taken as the dense tensor)
    if (index // 3) % 3 == 0:
        d = torch.tensor(A.densify(ps_eff)[0], dtype=torch.get_default_dtype()).reshape(A.shape_of(ps_eff))
        out = C.call(F.json_to_weights, json.loads(json.dumps(d.tolist())))
        obs['json_to_weights_calls'] += 1
        if not out['ok'] or not torch.equal(A.densify_pt(out['value']), d):
            viols.append(C.viol('json_to_weights:nested-list', f'nested list form: {out["exc"] if not out["ok"] else "value differs"}', context=ctx))
        j3 = dict(physical=phys, default=0.0)
        if nexp:
            j3['expand'] = expand
        e3 = torch.tensor(build(expand, phys) if nexp else phys, dtype=torch.get_default_dtype())
        out = C.call(F.json_to_weights, json.loads(json.dumps(j3)))
        obs['json_to_weights_calls'] += 1
        if not out['ok']:
            viols.append(C.viol(f"json_to_weights:no-vaxes:{out['exc_type']}", f'dict form without "vaxes" raised {out["exc"]}', context=dict(weight_spec=j3)))
        elif tuple(A.densify_pt(out['value']).shape) != tuple(e3.shape) or not torch.equal(A.densify_pt(out['value']), e3):
            viols.append(C.viol('json_to_weights:no-vaxes:value', 'dict form without "vaxes" does not denote physical (expanded)', context=dict(weight_spec=j3)))
    return jspec


def run_case(tier, seed, index, spec=None):
    fggs = env.setup()
    rng = G.rng_for(seed, 'C14', tier, index)
    viols = []
    obs = dict(to_json_calls=0, from_json_calls=0, iso_checks=0, weights_compared=0, sum_product_compared=0, verbatim_checks=0, rejection_attempts=0, json_to_weights_calls=0)
    if index % 3 == 2:
        js = weights_case(fggs, rng, index, viols, obs)
        if js is None:
            return dict(cls='weights', verdict='declined', violations=[], obs=obs, nontrivial=False, key=f'w{index}')
        nontriv = any(not isinstance(v, int) for v in js['vaxes']) or 'expand' in js
        return dict(cls='weights', features=['expand' if 'expand' in js else 'no-expand'], verdict='violated' if viols else 'held', violations=viols, obs=obs,
                    nontrivial=nontriv, key=C.hkey(js), sample=dict(weight_spec=js))
    sp, info_ = grammar_case(fggs, rng, tier, seed, index, viols, obs)
    feats = sorted(G.features_of(sp)) + [f'ids-{info_["idmode"]}', f'domains-{info_["domains"]}', 'patterned' if info_['patterned'] else 'dense', 'default-' + info_['default_dtype']] + (['odd-ids'] if info_['odd_ids'] else []) + (['unused-labels'] if 't_unused' in sp['terminals'] else [])
    return dict(cls='grammar', features=feats, verdict='violated' if viols else 'held', violations=viols, obs=obs,
                nontrivial=len(sp['rules']) >= 2 and info_['idmode'] != 'explicit', key=G.spec_key(sp) + info_['idmode'], sample=dict(spec=G.describe(sp), setup=info_))


def finalize(tot, tier, seed):
    inc = []
    for k in ('to_json_calls', 'from_json_calls', 'iso_checks', 'weights_compared', 'sum_product_compared', 'verbatim_checks', 'rejection_attempts', 'json_to_weights_calls', 'factor_to_json_calls'):
        if tot['obs'].get(k, 0) == 0:
            inc.append(f'{k} never observed')
    for f in ('ids-explicit', 'ids-implicit', 'ids-mixed', 'domains-range', 'domains-finite', 'patterned', 'dense', 'inf-weight', 'start-arity', 'expand', 'odd-ids', 'unused-labels'):
        if tot['features'].get(f, 0) == 0:
            inc.append(f'feature {f} never generated')
    return {}, inc
