"""C13 — equal and allclose decide (approximate) equality of the denoted tensors.

Boundary monitor on PatternedTensor.equal / allclose / equal_default / allclose_default and
MultiTensor.allclose; reference = torch.equal / torch.allclose on independently densified
operands.  Pairs are built constructively so that every support relation and the "equal by
construction through two different patterns" case occur at a controlled rate."""
import itertools, math
from . import common as C
from ..core import env
from ..gen import fggspec as G
from ..gen import types_patterns as TP
from ..oracle import axis_ref as A

PROPERTY = 'C13'
RULE = ('case = a pair of well-typed patterns over a common shape whose values are constructed from the support relation: equal-by-construction '
        '(shared values on the overlap, the other side\'s default elsewhere; defaults equal, or different when the union of supports covers the '
        'tensor), then perturbed in one element by {0, atol/2, 2*atol, a different value}, or fully random; also NaN/inf elements, different '
        'shapes, clones, densifications, re-patterned copies, and MultiTensors with absent blocks. evaluations = decisions compared; '
        'non-trivial = pair whose patterns differ and whose supports are neither equal nor both full; distinct = pair hashes')
ASSUMPTIONS = ['perturbations keep a factor-2 margin from the allclose threshold (rtol=0 for the threshold cases) so that rounding cannot flip the reference']


def plan(tier, seed):
    return dict(n=4000 if tier == 'quick' else 600000, budget_s=70 if tier == 'quick' else 840, case_timeout=60)


def support(ps):
    psz = ps['psizes']
    return {tuple(A.ev(e, idx, psz) for e in ps['vaxes']): idx for idx in itertools.product(*[range(n) for n in psz])}


def set_phys(ps, idx, val):
    if not ps['psizes']:
        ps['physical'] = val
    else:
        A.put(ps['physical'], list(idx), val)


def relation(s1, s2, total):
    a, b = set(s1), set(s2)
    if a == b:
        return 'identical-support'
    if a <= b or b <= a:
        return 'nested-support' + ('-one-full' if max(len(a), len(b)) == total else '')
    if a & b:
        return 'overlapping-support'
    return 'disjoint-support'


def run_case(tier, seed, index, spec=None):
    import torch
    fggs = env.setup()
    I = env.mod('fggs.indices')
    M = env.mod('fggs.multi')
    rng = G.rng_for(seed, 'C13', tier, index)
    viols = []
    obs = dict(equal_calls=0, allclose_calls=0, expected_true=0, expected_false=0, default_calls=0, multi_calls=0)
    dtype = torch.float64 if index % 7 else torch.float32
    mode = ['equal-by-construction', 'equal-by-construction', 'perturbed', 'perturbed', 'random', 'special-values'][index % 6]
    for _ in range(20):      # prefer shapes with structure (sum / product types), where supports can differ
        ts = TP.common_types(rng, depth=2, max_numel=9, max_total=200, allow_zero=(index % 40 == 7))
        if any(T[0] != 'atom' for T in ts) or len(ts) >= 2 and rng.random() < 0.3:
            break
    if index % 40 == 27:
        ts = TP.zero_summand_types(rng)
    vals = [0.0, 1.0, -1.5, 2.5, 0.5, 3.0, 7.0, -0.25, 1.8]
    sp_ = 0.9 if index % 5 else 0.5
    p1 = TP.gen_pattern(rng, ts, lambda: rng.choice(vals), rng.choice([0.0, 0.0, 1.0, 2.5]), expand_p=0.0, structure_p=sp_, share_p=0.4)
    p2 = TP.gen_pattern(rng, ts, lambda: rng.choice(vals), p1['default'], expand_p=0.0, structure_p=sp_, share_p=0.4)
    if rng.random() < 0.08:
        p2 = dict(p1, physical=G.map_nested(p1['physical'], lambda x: x))       # same pattern
    s1, s2 = support(p1), support(p2)
    total = math.prod(A.shape_of(p1))
    rel = relation(s1, s2, total)
    covered = len(set(s1) | set(s2)) == total
    info = dict(mode=mode)
    if mode in ('equal-by-construction', 'perturbed'):
        c1 = p1['default']
        # different defaults: invisible when the two supports cover the tensor (the tensors can still be equal), and in a
        # quarter of the other cases VISIBLE in the holes -- every stored entry still matches what the other side denotes
        # there, so only the comparison of the two defaults can tell the tensors apart
        same_default = rng.random() < (0.75 if not covered else 0.5)
        c2 = c1 if same_default else rng.choice([x for x in (0.0, 1.0, 2.5, -1.0) if x != c1])
        p2['default'] = c2
        for v, idx in s1.items():
            set_phys(p1, idx, c2 if v not in s2 else rng.choice(vals))
        for v, idx in s2.items():
            set_phys(p2, idx, c1 if v not in s1 else A.get(p1['physical'], s1[v]) if p1['psizes'] else p1['physical'])
        info['defaults'] = 'different' if c1 != c2 else 'equal'
        if mode == 'perturbed':
            which = rng.choice([1, 2])
            ps, ss = (p1, s1) if which == 1 else (p2, s2)
            if ss:
                v, idx = rng.choice(sorted(ss.items()))
                old = A.get(ps['physical'], idx) if ps['psizes'] else ps['physical']
                delta = rng.choice([0.0, 5e-4, 2e-3, 1.0])
                info['delta'] = delta
                set_phys(ps, idx, old + delta)
            elif rng.random() < 0.5:
                ps['default'] = ps['default'] + rng.choice([5e-4, 2e-3, 1.0])
    elif mode == 'special-values':
        sp = [math.nan, math.inf, -math.inf, 0.0, 1.0]
        for ps, ss in ((p1, s1), (p2, s2)):
            for v, idx in ss.items():
                if rng.random() < 0.3:
                    set_phys(ps, idx, rng.choice(sp))
        if rng.random() < 0.5:
            # make them equal except for the special values' semantics
            for v, idx in s2.items():
                if v in s1:
                    set_phys(p2, idx, A.get(p1['physical'], s1[v]) if p1['psizes'] else p1['physical'])
        d_ = rng.choice([math.inf, -math.inf, 0.0, math.nan])
        p1['default'] = d_
        p2['default'] = d_ if rng.random() < 0.7 else 0.0
        if d_ != d_ and p2['default'] != p2['default'] and rng.random() < 0.6:
            # NaN defaults on both sides, and each side stores NaN exactly where only the other side's default applies:
            # the dense tensors are equal up to NaN == NaN, which allclose(equal_nan=True) has to accept
            for v, idx in s1.items():
                if v not in s2:
                    set_phys(p1, idx, math.nan)
            for v, idx in s2.items():
                if v not in s1:
                    set_phys(p2, idx, math.nan)
                else:
                    set_phys(p2, idx, A.get(p1['physical'], s1[v]) if p1['psizes'] else p1['physical'])
    t = TP.realise(I, p1, dtype)
    u, shared = TP.realise_sharing(I, rng, p2, dtype, t)
    d = torch.tensor(A.densify(p1)[0], dtype=dtype).reshape(A.shape_of(p1))
    e = torch.tensor(A.densify(p2)[0], dtype=dtype).reshape(A.shape_of(p2))
    info.update(a=TP.depict(p1), b=TP.depict(p2), relation=rel, union_covers_tensor=covered, types=[repr(T) for T in ts], specs=[p1, p2], dtype=str(dtype))

    def V(sig, msg):
        viols.append(C.viol(sig, msg, pair=info))

    def decide(name, lib, expect, kind):
        out = C.call(lib)
        obs[kind] += 1
        obs['expected_true' if expect else 'expected_false'] += 1
        if not out['ok']:
            V(f"exception:{name}:{out['exc_type']}:{out.get('where', '')}", f'{name} raised {out["exc"]}')
            return
        if bool(out['value']) != bool(expect) or not isinstance(out['value'], bool):
            V(f"decision:{name}:{'false-negative' if expect else 'false-positive'}", f'{name} returned {out["value"]!r}, dense reference says {expect}')

    exp_eq = torch.equal(d, e)
    decide('equal', lambda: t.equal(u), exp_eq, 'equal_calls')
    decide('equal-symmetric', lambda: u.equal(t), exp_eq, 'equal_calls')
    nanfree = not torch.isnan(d).any()
    decide('equal-reflexive', lambda: t.equal(t), bool(nanfree), 'equal_calls')
    decide('equal-clone', lambda: t.equal(t.clone()), bool(nanfree), 'equal_calls')
    decide('equal-densified', lambda: t.equal(I.PatternedTensor(d.clone())), bool(nanfree), 'equal_calls')
    decide('equal-densified-rev', lambda: I.PatternedTensor(d.clone()).equal(t), bool(nanfree), 'equal_calls')
    if d.ndim >= 1 and d.shape[0] > 0:
        decide('equal-other-shape', lambda: t.equal(t[0]), False, 'equal_calls')
    if d.ndim == 2 and ts[0] == ts[1] if len(ts) == 2 else False:
        decide('equal-transposed', lambda: t.equal(t.T), torch.equal(d, d.T), 'equal_calls')
    for rtol, atol in ((1e-5, 1e-8), (0.0, 1e-3), (0.0, 0.0), (1e-3, 0.0), (0.5, 0.0)):
        for nan_eq in (False, True):
            exp = torch.allclose(d, e, rtol=rtol, atol=atol, equal_nan=nan_eq)
            decide(f'allclose', lambda: t.allclose(u, rtol=rtol, atol=atol, equal_nan=nan_eq), exp, 'allclose_calls')
            exp2 = torch.allclose(e, d, rtol=rtol, atol=atol, equal_nan=nan_eq)
            decide(f'allclose-swapped', lambda: u.allclose(t, rtol=rtol, atol=atol, equal_nan=nan_eq), exp2, 'allclose_calls')
    decide('allclose-default-args', lambda: t.allclose(u), torch.allclose(d, e), 'allclose_calls')
    # *_default
    ph = t.physical
    exp_def = bool((ph == t.default).all()) if ph.numel() else True
    decide('equal_default', lambda: t.equal_default(), exp_def, 'default_calls')
    dflt = torch.tensor(t.default, dtype=dtype)
    exp_cd = bool(torch.isclose(ph, dflt, rtol=0.0, atol=1e-3, equal_nan=True).all()) if ph.numel() else True
    decide('allclose_default', lambda: t.allclose_default(rtol=0.0, atol=1e-3), exp_cd, 'default_calls')
    # MultiTensor.allclose: absent block = zero
    if index % 3 == 0:
        multi(fggs, I, M, rng, t, u, d, e, decide, obs)
    nontrivial = rel != 'identical-support' and not (len(s1) == total and len(s2) == total)
    return dict(cls=mode, features=[rel, 'union-covers' if covered else 'union-partial', 'defaults-' + info.get('defaults', 'n/a')] + (['shared-axes'] if shared else []),
                verdict='violated' if viols else 'held', violations=viols, obs=obs, nontrivial=nontrivial, key=C.hkey([p1, p2, str(dtype)]),
                evals=obs['equal_calls'] + obs['allclose_calls'] + obs['default_calls'] + obs['multi_calls'],
                sample=dict(a=info['a'], b=info['b'], relation=rel, mode=mode, expected_equal=exp_eq))


def multi(fggs, I, M, rng, t, u, d, e, decide, obs):
    import torch
    for S in ('real', 'log'):
        sr = G.make_semiring(fggs, S, d.dtype)
        zero = 0.0 if S == 'real' else -math.inf
        shapes = {'X': d.shape, 'Y': d.shape, 'Z': d.shape}
        a = M.MultiTensor(shapes, sr)
        b = M.MultiTensor(shapes, sr)
        da, db = {}, {}
        for k in shapes:
            for mt, dd in ((a, da), (b, db)):
                r = rng.random()
                if r < 0.35:
                    continue        # absent = zero block
                src, sd = (t, d) if rng.random() < 0.5 else (u, e)
                if r < 0.55:        # a present block that happens to be all zero
                    z = torch.full(d.shape, zero, dtype=d.dtype)
                    mt[k] = I.PatternedTensor(z, default=zero) if rng.random() < 0.5 else I.PatternedTensor.from_int(0, sr).expand(*d.shape) if d.ndim else I.PatternedTensor(z, default=zero)
                    dd[k] = z
                else:
                    x = src.default_to(zero)
                    mt[k] = x
                    dd[k] = sd
        for tol in (0, 1e-3):
            exp = True
            for k in shapes:
                x = da.get(k, torch.full(d.shape, zero, dtype=d.dtype))
                y = db.get(k, torch.full(d.shape, zero, dtype=d.dtype))
                ok = torch.equal(x, y) if tol == 0 else torch.allclose(x, y, rtol=0.0, atol=tol)
                exp = exp and ok
            decide('MultiTensor.allclose', lambda: a.allclose(b, tol), exp, 'multi_calls')


def finalize(tot, tier, seed):
    inc = []
    for k in ('equal_calls', 'allclose_calls', 'expected_true', 'expected_false', 'default_calls', 'multi_calls'):
        if tot['obs'].get(k, 0) == 0:
            inc.append(f'{k} never observed')
    for f in ('identical-support', 'nested-support', 'overlapping-support', 'disjoint-support', 'union-covers', 'union-partial', 'defaults-different', 'defaults-equal'):
        if tot['features'].get(f, 0) == 0:
            inc.append(f'support relation / feature {f} never generated')
    return {}, inc
