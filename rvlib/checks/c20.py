"""C20 — domains and factors index consistently and reject ill-shaped bindings.

Boundary monitor with a table-lookup reference model written from the statement."""
import itertools, math
from . import common as C
from ..core import env
from ..gen import fggspec as G
from ..gen import types_patterns as TP
from ..oracle import axis_ref as A

PROPERTY = 'C20'
RULE = ('case = a random universe of 1-3 domains (finite with str/int/tuple/bool-free values, or range; sizes 0..5) and factors over them; '
        'monitors: numberize/denumberize bijection, contains, equality by content, every right and wrong weight shape (nested list, '
        'Tensor, PatternedTensor), apply on every value tuple, factor equality across representations, every label/factor pairing '
        'incl. rebinding, wrong arity, wrong domain, unmapped label, nonterminal; shape(). evaluations = cases; non-trivial = some '
        'factor of arity >=2 with >=2 entries; distinct = distinct universe hashes')
ASSUMPTIONS = ['contains/numberize queried with domain values and integers only (RangeDomain(3).contains(0.5) is True by design)',
               'domain values distinct under ==']


def plan(tier, seed):
    return dict(n=1000 if tier == 'quick' else 120000, budget_s=60 if tier == 'quick' else 840, case_timeout=60)


def gen_values(rng, size):
    kind = rng.choice(['str', 'int', 'tuple', 'mixed'])
    vals = []
    while len(vals) < size:
        k = kind if kind != 'mixed' else rng.choice(['str', 'int', 'tuple'])
        v = {'str': lambda: rng.choice('abcdefgh') + str(rng.randint(0, 9)),
             'int': lambda: rng.randint(-3, 12),
             'tuple': lambda: (rng.randint(0, 3), rng.choice('xyz'))}[k]()
        if v not in vals:
            vals.append(v)
    return vals


def nested_shape(x):
    if isinstance(x, list):
        return [len(x)] + (nested_shape(x[0]) if x else [])
    return []


def run_case(tier, seed, index, spec=None):
    import torch
    fggs = env.setup()
    I = env.mod('fggs.indices')
    rng = G.rng_for(seed, 'C20', tier, index)
    viols = []
    obs = dict(domain_checks=0, shape_accept=0, shape_reject=0, apply_checks=0, binding_calls=0, eq_checks=0)

    def V(sig, msg, **kw):
        viols.append(C.viol(sig, msg, index=index, **kw))

    # ---------------- domains
    nd = rng.randint(1, 3)
    sizes = [rng.choice([0, 1, 2, 2, 3, 3, 4, 5]) for _ in range(nd)]
    if index % 7:
        sizes = [max(1, s) for s in sizes]
    doms, descr = [], []
    for k, s in enumerate(sizes):
        if rng.random() < 0.6:
            vals = gen_values(rng, s)
            d = fggs.FiniteDomain(vals)
            descr.append(('finite', vals))
            out = C.call(lambda: [d.numberize(v) for v in vals])
            if not out['ok'] or out['value'] != list(range(s)):
                V('domain-numberize', f'numberize over {vals} gave {out["value"] if out["ok"] else out["exc"]}')
            out = C.call(lambda: [d.denumberize(i) for i in range(s)])
            if not out['ok'] or out['value'] != vals:
                V('domain-denumberize', f'denumberize over range({s}) gave {out["value"] if out["ok"] else out["exc"]} for {vals}')
            for v in vals:
                if d.contains(v) is not True:
                    V('domain-contains', f'contains({v!r}) is not True for {vals}')
            for v in ['zz9', 99, (9, 'q')]:
                if v not in vals and d.contains(v) is not False:
                    V('domain-contains', f'contains({v!r}) is not False for {vals}')
            if d.size() != s:
                V('domain-size', f'size()={d.size()} for {vals}')
            d2 = fggs.FiniteDomain(list(vals))
            if not (d == d2) or (d != d2):
                V('domain-equality', f'FiniteDomain({vals}) != its content-equal copy')
            # the domain owns its values: what the caller does to the list it passed in afterwards is none of its business
            mine = list(vals)
            d3 = fggs.FiniteDomain(mine)
            mine.append('appended-later')
            if mine[:-1]:
                mine[0] = 'overwritten-later'
            if d3.size() != s or not (d3 == d2) or any(d3.contains(v) is not True for v in vals) or d3.contains('appended-later') is not False \
               or [d3.denumberize(i) for i in range(s)] != vals or [d3.numberize(v) for v in vals] != list(range(s)):
                V('domain-aliases-caller-list', f'FiniteDomain built from a list changed when the caller mutated that list afterwards ({vals})')
            other = vals[:-1] if vals else ['q']
            if fggs.FiniteDomain(other) == d:
                V('domain-equality', f'FiniteDomain({other}) == FiniteDomain({vals})')
            if vals:
                changed = list(vals)
                changed[rng.randrange(s)] = 'other!'
                if fggs.FiniteDomain(changed) == d:
                    V('domain-equality', f'FiniteDomain({changed}) == FiniteDomain({vals})')
            if s >= 2:
                # same values in another order number differently: not the same domain
                perm = vals[1:] + vals[:1]
                if fggs.FiniteDomain(perm) == d or not (fggs.FiniteDomain(perm) != d):
                    V('domain-equality:order', f'FiniteDomain({perm}) == FiniteDomain({vals}) although they numberize differently')
            if d == fggs.RangeDomain(s) or fggs.RangeDomain(s) == d:
                V('domain-equality', 'FiniteDomain equal to a RangeDomain')
            j = d.to_json()
            if j != {'class': 'finite', 'values': vals}:
                V('domain-to_json', f'{j}')
        else:
            d = fggs.RangeDomain(s)
            descr.append(('range', s))
            if [d.numberize(i) for i in range(s)] != list(range(s)) or [d.denumberize(i) for i in range(s)] != list(range(s)):
                V('domain-numberize', f'RangeDomain({s}) numberize/denumberize not the identity')
            for i in range(-2, s + 2):
                if bool(d.contains(i)) != (0 <= i < s):
                    V('domain-contains', f'RangeDomain({s}).contains({i}) = {d.contains(i)}')
            if d.size() != s:
                V('domain-size', f'RangeDomain({s}).size()={d.size()}')
            if not (d == fggs.RangeDomain(s)) or d == fggs.RangeDomain(s + 1) or (d != fggs.RangeDomain(s)):
                V('domain-equality', f'RangeDomain({s}) equality not by size')
            if d.to_json() != {'class': 'range', 'size': s}:
                V('domain-to_json', f'{d.to_json()}')
        doms.append(d)
        obs['domain_checks'] += 1

    # ---------------- factor shapes
    ar = rng.choice([0, 1, 1, 2, 2, 2, 3])
    fdoms = [rng.randrange(nd) for _ in range(ar)]
    shape = [sizes[k] for k in fdoms]
    wl = G.nested(shape, lambda: round(rng.uniform(0, 3), 2))
    D = [doms[k] for k in fdoms]
    reps = {}
    for rep in ('list', 'tensor', 'patterned'):
        if rep == 'list':
            w = wl
            if 0 in shape and len(shape) > 1 and shape.index(0) < len(shape) - 1:
                continue   # nested lists cannot express shape (0, k)
        elif rep == 'tensor':
            w = torch.tensor(wl, dtype=torch.float64).reshape(shape)
        else:
            w = I.PatternedTensor(torch.tensor(wl, dtype=torch.float64).reshape(shape))
        out = C.call(fggs.FiniteFactor, D, w)
        if not out['ok']:
            V(f'factor-rejects-right-shape:{rep}', f'FiniteFactor rejected shape {shape} given as {rep}: {out["exc"]}', domains=descr)
        else:
            reps[rep] = out['value']
            obs['shape_accept'] += 1
            if tuple(out['value'].weights.shape) != tuple(shape):
                V('factor-weights-shape', f'weights.shape {tuple(out["value"].weights.shape)} != {shape}')
    # wrong shapes
    wrong = []
    for k in range(len(shape)):
        for delta in (1, -1):
            s2 = list(shape)
            s2[k] += delta
            if s2[k] >= 0:
                wrong.append(s2)
    wrong.append(shape + [2])
    wrong.append(shape + [1])
    if shape:
        wrong.append(shape[:-1])
        if len(shape) >= 2 and shape[0] != shape[-1]:
            wrong.append(shape[::-1])
        wrong.append([math.prod(shape)] if len(shape) > 1 else [shape[0], 1])
    for s2 in wrong:
        if list(s2) == list(shape):
            continue
        for rep in ('tensor', 'patterned', 'list'):
            t = torch.zeros(s2, dtype=torch.float64)
            if rep == 'list':
                if 0 in s2:
                    continue
                w = t.tolist()
            elif rep == 'tensor':
                w = t
            else:
                w = I.PatternedTensor(t)
            out = C.call(fggs.FiniteFactor, D, w)
            if out['ok']:
                V(f'factor-accepts-wrong-shape:{rep}', f'FiniteFactor accepted shape {s2} for domains of sizes {shape} ({rep})', domains=descr)
            else:
                obs['shape_reject'] += 1          # the statement asks for rejection, not for a particular exception type
    # the weights setter validates too
    if 'tensor' in reps and shape:
        f = reps['tensor']
        s2 = list(shape)
        s2[0] += 1
        before = f.weights.to_dense().clone()
        out = C.call(lambda: setattr(f, 'weights', torch.zeros(s2, dtype=torch.float64)))
        if out['ok']:
            V('factor-setter-accepts-wrong-shape', f'weights setter accepted {s2} for {shape}')
        elif not torch.equal(f.weights.to_dense(), before):
            V('factor-setter-not-atomic', 'failed weights assignment changed the weights')

    # ---------------- apply
    if 'tensor' in reps and all(shape):
        # a patterned representation of the same dense tensor must behave the same
        facs = dict(reps)
        if ar >= 1:
            ps_types = [('atom', s) for s in shape]
            ps = TP.gen_pattern(rng, ps_types, lambda: 0.0, 0.0)
            # fill the pattern from wl on its support: build via dense -> choose a diagonal-free trivial pattern; keep dense values
            facs['patterned2'] = fggs.FiniteFactor(D, I.PatternedTensor(torch.tensor(wl, dtype=torch.float64).reshape(shape)).clone())
        for name, f in facs.items():
            for idx in itertools.islice(itertools.product(*[range(s) for s in shape]), 0, 60):
                vals = [d.denumberize(i) for d, i in zip(D, idx)]
                out = C.call(f.apply, vals)
                obs['apply_checks'] += 1
                if not out['ok']:
                    V(f'apply-exception:{out["exc_type"]}', f'apply({vals}) raised {out["exc"]} ({name})', domains=descr)
                    break
                got = out['value']
                exp = G.get_nested(wl, idx)
                try:
                    g = float(got)
                except Exception:
                    g = None
                # nested-list weights are stored in the default dtype (float32): compare at that precision
                same = g is not None and (g == exp if name != 'list' else abs(g - exp) <= 1e-6 * max(1.0, abs(exp)))
                if not same or (hasattr(got, 'shape') and tuple(got.shape) != ()):
                    V('apply-value', f'apply({vals}) = {got!r}, table says {exp} ({name})', domains=descr)
                    break

    # ---------------- weights re-assigned through the setter: apply(), == and shape follow the new weights
    if 'tensor' in reps and all(shape):
        f_ = fggs.FiniteFactor(D, torch.tensor(wl, dtype=torch.float64).reshape(shape))
        idx0 = tuple(rng.randrange(s_) for s_ in shape)
        vals0 = [d_.denumberize(i) for d_, i in zip(D, idx0)]
        o1 = C.call(f_.apply, vals0)
        neww = torch.tensor(wl, dtype=torch.float64).reshape(shape) + 1.0
        o2 = C.call(lambda: setattr(f_, 'weights', neww))
        o3 = C.call(f_.apply, vals0)
        obs['apply_after_reassign'] = obs.get('apply_after_reassign', 0) + 1
        if o1['ok'] and o2['ok'] and o3['ok']:
            exp1 = G.get_nested(wl, idx0) if shape else wl
            if float(o3['value']) != float(exp1) + 1.0:
                V('apply-stale-after-reassign', f'after fac.weights = w + 1, apply({vals0}) = {float(o3["value"])!r}, the new table says {float(exp1) + 1.0!r}', domains=descr)
            if f_ == reps['tensor']:
                V('factor-equality', 'a factor whose weights were re-assigned still equals the factor with the old weights', domains=descr)

    # ---------------- factor equality
    if 'tensor' in reps:
        f = reps['tensor']
        for name, g in reps.items():
            obs['eq_checks'] += 1
            if name == 'list':   # stored in the default dtype: compare with a Tensor of that dtype
                f32 = fggs.FiniteFactor(D, torch.tensor(wl, dtype=torch.get_default_dtype()).reshape(shape))
                if not (f32 == g) or (f32 != g) or not (g == f32):
                    V('factor-equality', 'factor with nested-list weights != factor with the same weights as default-dtype Tensor')
                continue
            if not (f == g) or (f != g) or not (g == f):
                V('factor-equality', f'factor with {name} weights != factor with the same dense weights as Tensor')
        if math.prod(shape) > 0:
            w2 = torch.tensor(wl, dtype=torch.float64).reshape(shape).clone()
            w2.view(-1)[rng.randrange(w2.numel())] += 0.5
            if fggs.FiniteFactor(D, w2) == f:
                V('factor-equality', 'factors with different weights compare equal')
        if ar and all(shape):
            # same sizes but different domain content
            D2 = list(D)
            k = rng.randrange(ar)
            D2[k] = fggs.FiniteDomain([f'other{i}' for i in range(shape[k])])
            if D2[k] != D[k] and fggs.FiniteFactor(D2, torch.tensor(wl, dtype=torch.float64).reshape(shape)) == f:
                V('factor-equality', 'factors over different domains compare equal')
        # content-equal domains -> equal factors
        D3 = [fggs.FiniteDomain(list(d.values)) if isinstance(d, fggs.FiniteDomain) else fggs.RangeDomain(d.size()) for d in D]
        if not (fggs.FiniteFactor(D3, torch.tensor(wl, dtype=torch.float64).reshape(shape)) == f):
            V('factor-equality', 'factors over content-equal domains and equal weights compare unequal')

    # ---------------- the other factor class: a ConstantFactor has one weight for every value tuple; equality by domains and weight
    CF = getattr(env.mod('fggs.factors'), 'ConstantFactor', None)
    if CF is not None:
        wc = round(rng.uniform(0, 3), 2)
        oc = C.call(CF, D, wc)
        if not oc['ok']:
            V(f'constant-factor-exception:{oc["exc_type"]}', f'ConstantFactor({[d.size() for d in D]}, {wc}) raised {oc["exc"]}', domains=descr)
        else:
            cf = oc['value']
            obs['constant_factor_checks'] = obs.get('constant_factor_checks', 0) + 1
            if all(shape):
                vals_c = [d.denumberize(rng.randrange(d.size())) for d in D]
                oa = C.call(cf.apply, vals_c)
                if not oa['ok'] or oa['value'] != wc:
                    V('constant-factor-apply', f'apply({vals_c}) = {oa.get("value")!r} ({oa.get("exc")}), weight is {wc}', domains=descr)
            D3c = [fggs.FiniteDomain(list(d.values)) if isinstance(d, fggs.FiniteDomain) else fggs.RangeDomain(d.size()) for d in D]
            same, other_w = CF(D3c, wc), CF(D, wc + 1.0)
            if not (cf == same) or not (same == cf) or (cf != same) or not (cf == cf):
                V('constant-factor-equality', 'ConstantFactors over content-equal domains with the same weight compare unequal', domains=descr)
            if cf == other_w or not (cf != other_w):
                V('constant-factor-equality', 'ConstantFactors with different weights compare equal', domains=descr)
            if 'tensor' in reps and (cf == reps['tensor'] or reps['tensor'] == cf):
                V('constant-factor-equality', 'a ConstantFactor equals a FiniteFactor', domains=descr)
            if ar and all(shape):
                D2c = list(D)
                kc = rng.randrange(ar)
                D2c[kc] = fggs.FiniteDomain([f'other{i}' for i in range(shape[kc])])
                if D2c[kc] != D[kc] and CF(D2c, wc) == cf:
                    V('constant-factor-equality', 'ConstantFactors over different domains compare equal', domains=descr)

    # ---------------- factor equality with genuinely patterned weights: decided by the dense tensors, not by the storage
    if ar and all(shape):
        types = [TP.type_of_size(rng, n) for n in shape]
        vals_ = [0.0, 1.0, 2.5, 0.5]
        pa = TP.gen_pattern(rng, types, lambda: rng.choice(vals_), rng.choice([0.0, 0.0, 1.0]), expand_p=0.0)
        variants = [('repatterned', TP.gen_pattern(rng, types, lambda: rng.choice(vals_), pa['default'], expand_p=0.0)),
                    ('other-default', dict(pa, default=pa['default'] + 5.0)),
                    ('same-storage-other-pattern', dict(TP.gen_pattern(rng, types, lambda: 0.0, pa['default'], expand_p=0.0)))]
        da = torch.tensor(A.densify(pa)[0], dtype=torch.float64).reshape(shape)
        fa = C.call(lambda: fggs.FiniteFactor(D, TP.realise(I, pa, torch.float64)))
        if fa['ok']:
            fdense = fggs.FiniteFactor(D, da.clone())
            obs['eq_checks'] += 1
            if not (fa['value'] == fdense) or not (fdense == fa['value']) or (fa['value'] != fdense):
                V('factor-equality:patterned', f'factor with weights {TP.depict(pa)} != factor with the same dense weights', domains=descr)
            for vname, pb in variants:
                if vname == 'same-storage-other-pattern':
                    if pb['psizes'] != pa['psizes']:
                        continue
                    pb = dict(pb, physical=pa['physical'])      # identical physical storage under another pattern
                db = torch.tensor(A.densify(pb)[0], dtype=torch.float64).reshape(shape)
                fb = C.call(lambda: fggs.FiniteFactor(D, TP.realise(I, pb, torch.float64)))
                if not fb['ok']:
                    continue
                expect = bool(torch.equal(da, db))
                obs['eq_checks'] += 1
                obs['eq_patterned_' + ('equal' if expect else 'unequal')] = obs.get('eq_patterned_' + ('equal' if expect else 'unequal'), 0) + 1
                r1, r2, r3 = C.call(lambda: fa['value'] == fb['value']), C.call(lambda: fb['value'] == fa['value']), C.call(lambda: fa['value'] != fb['value'])
                if not (r1['ok'] and r2['ok'] and r3['ok']):
                    V('factor-equality:patterned:exception', f'== raised {(r1.get("exc") or r2.get("exc") or r3.get("exc"))} for {TP.depict(pa)} vs {TP.depict(pb)}', domains=descr)
                elif bool(r1['value']) != expect or bool(r2['value']) != expect or bool(r3['value']) == expect:
                    V(f'factor-equality:patterned:{vname}', f'{TP.depict(pa)} == {TP.depict(pb)} gives {r1["value"]}/{r2["value"]}, != gives {r3["value"]}; dense weights are {"equal" if expect else "different"}', domains=descr)

    # ---------------- binding
    for container in ('fgg', 'factorgraph'):
        X = fggs.FGG('S') if container == 'fgg' else fggs.FactorGraph()
        nls = [fggs.NodeLabel(f'N{k}') for k in range(nd)]
        for nl, d in zip(nls, doms):
            X.add_domain(nl, d)
        typ = [nls[k] for k in fdoms]
        el = fggs.EdgeLabel('t', typ, is_terminal=True)
        nt = fggs.EdgeLabel('X', typ, is_nonterminal=True)
        mk = lambda DD=None, sh=None: fggs.FiniteFactor(DD if DD is not None else D, torch.tensor(wl, dtype=torch.float64).reshape(shape) if sh is None else torch.zeros(sh, dtype=torch.float64))

        def attempt(what, fn, expect_exc, sig):
            before = (dict(X.factors), dict(X.domains))
            out = C.call(fn)
            obs['binding_calls'] += 1
            if expect_exc is None:
                if not out['ok']:
                    V(f'{sig}:rejected', f'{what} raised {out["exc"]} ({container})', domains=descr)
                return out
            if out['ok']:
                V(f'{sig}:accepted', f'{what} was accepted ({container})', domains=descr)
            # (any exception is a rejection; the statement does not name exception types for bindings)
            if (dict(X.factors), dict(X.domains)) != before and not out['ok']:
                V(f'{sig}:state-changed', f'failed {what} changed the interpretation ({container})')
            return out
        attempt('add_factor(nonterminal)', lambda: X.add_factor(nt, mk()), ('ValueError',), 'bind-nonterminal')
        if ar >= 1:
            attempt('add_factor with arity-1 factor', lambda: X.add_factor(el, fggs.FiniteFactor(D[:-1], torch.zeros(shape[:-1], dtype=torch.float64))), ('ValueError',), 'bind-wrong-arity')
        attempt('add_factor with arity+1 factor', lambda: X.add_factor(el, fggs.FiniteFactor(D + [doms[0]], torch.zeros(shape + [sizes[0]], dtype=torch.float64))), ('ValueError',), 'bind-wrong-arity')
        if ar >= 1:
            k = rng.randrange(ar)
            D2 = list(D)
            D2[k] = fggs.FiniteDomain([f'other{i}' for i in range(shape[k] + 1)])
            sh2 = list(shape)
            sh2[k] += 1
            attempt('add_factor with a different domain', lambda: X.add_factor(el, fggs.FiniteFactor(D2, torch.zeros(sh2, dtype=torch.float64))), ('ValueError',), 'bind-wrong-domain')
            # same size, different content
            if shape[k] > 0:
                D4 = list(D)
                D4[k] = fggs.FiniteDomain([f'other{i}' for i in range(shape[k])])
                attempt('add_factor with an equal-size different domain', lambda: X.add_factor(el, fggs.FiniteFactor(D4, torch.zeros(shape, dtype=torch.float64))), ('ValueError',), 'bind-wrong-domain')
            if shape[k] > 1 and isinstance(D[k], fggs.FiniteDomain):
                D5 = list(D)
                D5[k] = fggs.FiniteDomain(D[k].values[1:] + D[k].values[:1])
                attempt('add_factor with a permuted domain', lambda: X.add_factor(el, fggs.FiniteFactor(D5, torch.zeros(shape, dtype=torch.float64))), ('ValueError',), 'bind-wrong-domain:permuted')
            un = fggs.EdgeLabel('u', typ[:k] + [fggs.NodeLabel('Unmapped')] + typ[k + 1:], is_terminal=True)
            attempt('add_factor on a label with an unmapped node label', lambda: X.add_factor(un, mk()), ('ValueError',), 'bind-unmapped-nodelabel')
        attempt('new_finite_factor(unknown name)', lambda: X.new_finite_factor('nosuch', wl), ('KeyError',), 'bind-unknown-name')
        out = attempt('add_factor(right)', lambda: X.add_factor(el, mk()), None, 'bind-right')
        if out['ok']:
            if X.factors.get('t') is None or not (X.factors['t'] == mk()):
                V('bind-right:not-stored', f'factor not stored under its label name ({container})')
            attempt('add_factor on an already bound label', lambda: X.add_factor(el, mk()), ('ValueError',), 'rebind-factor')
            attempt('new_finite_factor on an already bound label', lambda: X.new_finite_factor('t', wl), ('ValueError',), 'rebind-factor')
        attempt('add_domain on an already bound node label', lambda: X.add_domain(nls[0], fggs.RangeDomain(2)), ('ValueError',), 'rebind-domain')
        # new_finite_factor happy path on a second label, nested-list weights
        el2 = fggs.EdgeLabel('t2', typ, is_terminal=True)
        X.add_edge_label(el2)
        if not (0 in shape and len(shape) > 1):
            out = attempt('new_finite_factor(right)', lambda: X.new_finite_factor('t2', wl), None, 'bind-right-new')
            if out['ok'] and all(shape):
                sh3 = list(shape)
                if sh3:
                    sh3[0] += 1
                    el3 = fggs.EdgeLabel('t3', typ, is_terminal=True)
                    X.add_edge_label(el3)
                    attempt('new_finite_factor(wrong shape)', lambda: X.new_finite_factor('t3', torch.zeros(sh3).tolist()), ('ValueError',), 'bind-wrong-shape')
        # shape()
        nodes = [fggs.Node(l) for l in typ]
        edge = fggs.Edge(el, nodes)
        for what, x in (('EdgeLabel', el), ('Edge', edge), ('nodes', nodes), ('node labels', typ), ('nodes tuple', tuple(nodes))):
            out = C.call(X.shape, x)
            if not out['ok'] or tuple(out['value']) != tuple(shape):
                V('shape()', f'shape({what}) = {out["value"] if out["ok"] else out["exc"]} expected {tuple(shape)} ({container})')
    nontrivial = ar >= 2 and math.prod(shape) >= 2
    return dict(cls=f'arity{ar}', features=[k for k, _ in descr] + (['size0'] if 0 in sizes else []) + (['size1'] if 1 in sizes else []),
                verdict='violated' if viols else 'held', violations=viols, obs=obs, nontrivial=nontrivial,
                key=C.hkey([descr, fdoms, wl]), sample=dict(domains=[list(map(str, d)) if isinstance(d, list) else d for d in descr], factor_domains=fdoms, weights=wl))


def finalize(tot, tier, seed):
    inc = []
    for k in ('shape_accept', 'shape_reject', 'apply_checks', 'binding_calls', 'eq_checks', 'constant_factor_checks'):
        if tot['obs'].get(k, 0) == 0:
            inc.append(f'monitor {k} never exercised')
    for f in ('finite', 'range', 'size0', 'size1'):
        if tot['features'].get(f, 0) == 0:
            inc.append(f'feature {f} never generated')
    return {}, inc
