"""C12 — results do not depend on how the grammar is written down.

Metamorphic monitor: one spec is realised in several presentations (rule/node/edge insertion
order, explicit vs implicit ids, renamed node labels, edge labels and domain values, permuted
domain values with the factor axes permuted accordingly); sum_product, its gradients and the
viterbi weight must agree (start tensor / gradients permuted back).  The "schedule" dimension is
made explicit: each batch is also run under 4 PYTHONHASHSEEDs in subprocesses, and hooks record
the SCC order, the elimination order and the edge order reaching einsum, so the evidence says
how many distinct orders were actually observed."""
import json, math, os, subprocess, sys
from . import common as C
from ..core import env
from ..gen import fggspec as G
from ..oracle import sumproduct_ref as R
from ..monitor.hooks import Hooks

PROPERTY = 'C12'
RULE = ('case = one generated FGG spec realised in 6 presentations (random rule/node/edge orders, explicit/implicit ids, consistent renaming of '
        'node labels, edge labels and domain values, permutation of domain values with factor axes) compared with the canonical presentation on '
        'sum_product (Real fixed-point/newton, Log, Viterbi, Bool), Real gradients and viterbi weights; hash-seed cases run a batch under '
        'PYTHONHASHSEED 0..3 in subprocesses. evaluations = presentation comparisons; non-trivial = spec that offers a choice of order '
        '(>= 2 nonterminals in one SCC or a rule with >= 2 edges); distinct = spec hashes')
ASSUMPTIONS = ['tolerance 1e-9 relative (float64): measured reordering noise is <= 2e-16 relative', 'specs conditioned so that iterative methods converge (tol 1e-12)']
CLASSES = ('nonrec', 'linear', 'nonlinear', 'mixed')
N_SUB = 2
NPRES = 6


def plan(tier, seed):
    return dict(n=(90 if tier == 'quick' else 3000) + N_SUB * (1 if tier == 'quick' else 8), budget_s=170 if tier == 'quick' else 840, case_timeout=500)


def gen(tier, seed, index):
    rng = G.rng_for(seed, 'C12', tier, index)
    cls = CLASSES[index % len(CLASSES)]
    forced = [['many-rules', 'jpre-shape', 'shared-factor', 'start-arity', 'no-edges-rule', 'edge-twice', 'edgeless-internal', 'plain', 'unit-base'][(index // 4) % 9]]
    spec = G.gen_spec(rng, cls, forced, allow_inf=False, wdomain='log' if index % 3 == 0 else 'real', grid=index % 3 == 0,
                      max_scc=5 if index % 2 else 3, max_nts=5 if index % 2 else 4, max_dom=2 if index % 2 else 3)
    if index % 9 == 5:
        # hand-shaped: a dense linearly recursive component (several back edges into one nonterminal)
        spec = G.gen_dense_linear_scc_spec(rng, 'log' if index % 2 else 'real')
        return spec, dict(cls='linear', forced=['dense-linear-scc'])
    return spec, dict(cls=cls, forced=forced)


def condition(spec):
    import torch
    if not G.recursive_nts(spec):
        return True
    for _ in range(7):
        x, it, ok, hist = R.Dense(spec, 'real').kleene(max_iter=600)
        if ok and all(torch.isfinite(x[n]).all() for n in x) and R.Dense(spec, 'real').spectral_radius(x) <= 0.9:
            return True
        G.scale_recursive(spec, 0.5)
    return False


def presentation(rng, spec, k):
    """options for build_fgg + the maps needed to translate results back"""
    if k == 0:
        return dict(), {}
    opts = {}
    nr = len(spec['rules'])
    order = list(range(nr))
    rng.shuffle(order)
    opts['rule_order'] = order
    no, eo = {}, {}
    for ri, r in enumerate(spec['rules']):
        a = list(range(len(r['nodes'])))
        b = list(range(len(r['edges'])))
        rng.shuffle(a)
        rng.shuffle(b)
        no[ri], eo[ri] = a, b
    opts['node_orders'], opts['edge_orders'] = no, eo
    opts['explicit_ids'] = rng.random() < 0.5
    opts['nt_decl_first'] = rng.random() < 0.5
    opts['start_via_setter'] = rng.random() < 0.4
    if rng.random() < 0.6:
        names = list(spec['domains']) + list(spec['terminals']) + list(spec['nonterminals'])
        pool = [f'{rng.choice("zyxwab")}{i}_{rng.randrange(100)}' for i in range(len(names))]
        opts['rename'] = dict(zip(names, pool))
    if rng.random() < 0.6:
        opts['domain_kind'] = 'finite'
        if rng.random() < 0.5:
            opts['domain_values'] = {l: [f'{rng.choice("pqr")}{rng.randrange(1000)}_{i}' for i in range(s)] for l, s in spec['domains'].items()}
    vp = {}
    if rng.random() < 0.6:
        for l, s in spec['domains'].items():
            p = list(range(s))
            rng.shuffle(p)
            vp[l] = p
        opts['value_perm'] = vp
    return opts, vp


def unpermute(t, typ, vp):
    """tensor in a value-permuted presentation -> canonical axes (new position k holds old value p[k])"""
    import torch
    for ax, l in enumerate(typ):
        p = vp.get(l)
        if p is not None and t.ndim > ax:
            inv = [0] * len(p)
            for new, old in enumerate(p):
                inv[old] = new
            t = t.index_select(ax, torch.tensor(inv, dtype=torch.long)) if len(p) else t
    return t


def observe(fggs, spec, opts, vp, orders=None, want_viterbi=True):
    """run the queries on one presentation; returns dict name -> tensor (canonical axes) / float"""
    import torch
    out = {}
    start_typ = spec['nonterminals'][spec['start']]
    rn = opts.get('rename') or {}
    back = {v: k for k, v in rn.items()}
    configs = [('real', 'fixed-point', True), ('real', 'newton', False), ('log', 'fixed-point', False), ('viterbi', 'fixed-point', False), ('bool', 'fixed-point', False)]
    if G.is_linear(spec) and G.recursive_nts(spec):
        configs += [('real', 'linear', True), ('log', 'linear', False), ('viterbi', 'newton', False)]
    for S, method, grad in configs:
        fgg, info = G.build_fgg(fggs, spec, S, torch.float64, requires_grad=grad, **opts)
        sr = G.make_semiring(fggs, S, torch.float64)
        o = C.call(lambda: fggs.sum_product(fgg, method=method, semiring=sr, tol=1e-12, kmax=10000).to_dense())
        key = f'{S}/{method}'
        if not o['ok']:
            out[key] = ('error', f"{o['exc_type']}: {o['exc']}", o.get('where', ''))
            continue
        if o['warnings']:
            out[key] = ('warned',)
            continue
        z = o['value']
        out[key] = unpermute(z.detach(), start_typ, vp)
        if grad and z.requires_grad:
            c = torch.ones_like(z)
            o2 = C.call(lambda: (z * c).sum().backward())
            if o2['ok']:
                for t, w in info['weights'].items():
                    if w.grad is not None:
                        out[f'grad-{method}/{t}'] = unpermute(w.grad.detach(), spec['terminals'][t], vp)
            else:
                out['grad'] = ('error', o2['exc'], o2.get('where', ''))
    if want_viterbi:
        fgg, info = G.build_fgg(fggs, spec, 'viterbi', torch.float64, **opts)
        zv = out.get('viterbi/fixed-point')
        if isinstance(zv, torch.Tensor):
            import itertools
            shape = G.shape_of(spec, start_typ)
            for asst in list(itertools.product(*[range(s) for s in shape]))[:3]:
                best = zv[asst].item() if shape else zv.item()
                if best == -math.inf:
                    continue
                # the same start assignment in this presentation's numbering
                a2 = []
                for v, l in zip(asst, start_typ):
                    p = vp.get(l)
                    a2.append(p.index(v) if p is not None else v)
                o = C.call(fggs.viterbi, fgg, tuple(a2), semiring=fggs.ViterbiSemiring(dtype=torch.float64), tol=1e-12, kmax=10000)
                key = f'viterbi-weight/{asst}'
                if not o['ok']:
                    out[key] = ('error', f"{o['exc_type']}: {o['exc']}", o.get('where', ''))
                    continue
                o2 = C.call(o['value'].derive)
                if not o2['ok']:
                    out[key] = ('error', o2['exc'], o2.get('where', ''))
                    continue
                graph, gasst = o2['value']
                w = 0.0
                for e in graph.edges():
                    x = fgg.factors[e.label.name].weights.to_dense()[tuple(gasst[n] for n in e.nodes)].item()
                    w = w + x if not (w == -math.inf or x == -math.inf) else -math.inf
                out[key] = torch.tensor(w, dtype=torch.float64)
    return out


class OrderSpy:
    """records the orders the library actually took, translated back to spec names"""

    def __init__(self, h, back):
        self.sets = dict(scc=set(), elim=set(), edges=set())
        U = env.mod('fggs.utils')
        SP = env.mod('fggs.sum_product')
        M = env.mod('fggs.multi')
        VIT = env.mod('fggs.viterbi')
        self.back = back
        nm = lambda l: self.back.get(getattr(l, 'name', str(l)), getattr(l, 'name', str(l)))

        def on_scc(r, a, k):
            self.sets['scc'].add('|'.join(','.join(nm(x) for x in c) for c in r))
        h.spy(SP, 'scc', on_return=on_scc, key='scc')
        h.spy(VIT, 'scc', on_return=on_scc, key='scc-viterbi')

        def on_order(r, a, k):
            self.sets['elim'].add('>'.join(nm(x) for x in r))
        h.spy(M, '_order_nonterminals', on_return=on_order, key='_order_nonterminals')

        def on_edges(a, k):
            edges = a[2]
            self.sets['edges'].add(','.join(nm(e.label) for e in edges))
        h.spy(SP, 'sum_product_edges', on_call=on_edges, key='sum_product_edges')


def near_critical(spec):
    """a copy of the spec rescaled to spectral radius ~0.97 (None if that fails): Newton still converges in a
    few iterations there, anything that degrades to a linear rate needs ~10^3"""
    import copy, torch
    lo, hi = 1.0, None
    best = None
    f = 1.0
    for _ in range(14):
        sp = copy.deepcopy(spec)
        G.scale_recursive(sp, f)
        x, it, ok, hist = R.Dense(sp, 'real').kleene(max_iter=3000)
        rho = R.Dense(sp, 'real').spectral_radius(x) if ok and all(torch.isfinite(x[n]).all() for n in x) else 2.0
        if 0.955 <= rho <= 0.98:
            return sp
        if rho < 0.955:
            lo = f
            f = f * 1.3 if hi is None else (f + hi) / 2
        else:
            hi = f
            f = (lo + f) / 2
    return None


def newton_budget_probe(fggs, spec, opts, vp):
    """Newton with a budget that is ample for Newton (60) on a near-critical grammar: value or 'warned'"""
    import torch
    fgg, info = G.build_fgg(fggs, spec, 'real', torch.float64, **opts)
    o = C.call(lambda: fggs.sum_product(fgg, method='newton', semiring=fggs.RealSemiring(dtype=torch.float64), tol=1e-10, kmax=60).to_dense())
    if not o['ok']:
        return ('error', f"{o['exc_type']}: {o['exc']}", o.get('where', ''))
    if o['warnings']:
        return ('warned',)
    return unpermute(o['value'].detach(), spec['nonterminals'][spec['start']], vp)


def compare(base, other, viols, ctx, obs):
    import torch
    for key, b in base.items():
        o = other.get(key)
        obs['comparisons'] += 1
        if isinstance(b, tuple) or isinstance(o, tuple) or o is None:
            bw, ow = isinstance(b, tuple) and b[0] == 'warned', isinstance(o, tuple) and o[0] == 'warned'
            if key.startswith('newton-budget60') and bw != ow:
                viols.append(C.viol('presentation:newton-convergence-depends-on-order', f'{key}: canonical presentation {"warns" if bw else "converges"}, this one {"warns" if ow else "converges"} within the same budget', context=ctx))
                continue
            if bw or ow:
                continue
            if (isinstance(b, tuple) and b[0] == 'error') != (isinstance(o, tuple) and o[0] == 'error') or (o is None and not key.startswith('grad/')):
                viols.append(C.viol(f'presentation:{key.split("/")[0]}:only-one-side-fails', f'{key}: canonical={C.short(b, 150)} presentation={C.short(o, 150)}', context=ctx))
            continue
        msg = C.close_tensor(o, b, 'bool' if b.dtype == torch.bool else 'float64', rtol=1e-9, atol=1e-11)
        if msg:
            viols.append(C.viol(f'presentation:{key.split("/")[0]}:differs', f'{key}: {msg}', context=ctx))


def check_spec(spec, meta, seed, index):
    import torch
    fggs = env.setup()
    viols = []
    obs = dict(presentations=0, comparisons=0, grammars_with_choice=0, grammars_with_choice_seen_under_2_orders=0)
    if not condition(spec):
        return dict(verdict='declined', violations=[], obs=obs, nontrivial=False)
    comps = G.sccs_of(spec)[2]
    choice = any(len(c) >= 2 for c in comps.values()) or any(len(r['edges']) >= 2 for r in spec['rules'])
    rng = G.rng_for(seed, 'C12p', index)
    slow = near_critical(spec) if (not G.is_linear(spec) and G.recursive_nts(spec) and index % 2 == 0) else None
    allorders = dict(scc=set(), elim=set(), edges=set())
    base = None
    hooks = {}
    for k in range(NPRES + 1):
        opts, vp = presentation(rng, spec, k)
        back = {v: kk for kk, v in (opts.get('rename') or {}).items()}
        with Hooks() as h:
            spy = OrderSpy(h, back)
            res = observe(fggs, spec, opts, vp)
            if slow is not None:
                res['newton-budget60-near-critical/real'] = newton_budget_probe(fggs, slow, opts, vp)
                obs['near_critical_newton_runs'] = obs.get('near_critical_newton_runs', 0) + 1
            for kk, v in h.count.items():
                hooks[kk] = hooks.get(kk, 0) + v
        for kk in allorders:
            allorders[kk] |= spy.sets[kk]
        obs['presentations'] += 1
        if k == 0:
            base = res
            for key, b in base.items():
                if isinstance(b, tuple) and b[0] == 'error':
                    viols.append(C.viol(f'canonical-presentation-fails:{key.split("/")[0]}:{b[2]}', f'{key}: {b[1]}'))
            continue
        ctx = dict(presentation=k, options={kk: (v if kk not in ('node_orders', 'edge_orders') else '...') for kk, v in opts.items()})
        compare(base, res, viols, ctx, obs)
    if choice:
        obs['grammars_with_choice'] += 1
        # distinct orders: the SCC listing, elimination orders, or the multiset of edge sequences grew beyond one presentation's worth
        if len(allorders['scc']) >= 2 or len(allorders['elim']) >= 2 or len(allorders['edges']) > len({e for e in allorders['edges'] if True}) // 2 + 0 and len(allorders['edges']) >= 2:
            obs['grammars_with_choice_seen_under_2_orders'] += 1
    sets = {f'orders_{kk}': [f'{index}:{x}' for x in v] for kk, v in allorders.items()}
    return dict(verdict='violated' if viols else 'held', violations=viols, obs=obs, nontrivial=choice, hooks=hooks, sets=sets)


SUB_CODE = r'''
import sys, json, os
sys.path.insert(0, os.environ['RV_VERIF'])
from rvlib.core import env
fggs = env.setup()
import torch
from rvlib.checks import c12
from rvlib.gen import fggspec as G
from rvlib.monitor.hooks import Hooks
tier, seed, lo, hi = sys.argv[1], int(sys.argv[2]), int(sys.argv[3]), int(sys.argv[4])
out = dict(hashseed=os.environ.get('PYTHONHASHSEED'), results={}, orders={})
for index in range(lo, hi):
    spec, meta = c12.gen(tier, seed, index)
    if not c12.condition(spec):
        continue
    rng = G.rng_for(seed, 'C12sub', index)
    for k in range(3):
        opts, vp = c12.presentation(rng, spec, k)
        back = {v: kk for kk, v in (opts.get('rename') or {}).items()}
        with Hooks() as h:
            spy = c12.OrderSpy(h, back)
            res = c12.observe(fggs, spec, opts, vp, want_viterbi=(k == 0))
        enc = {}
        for key, v in res.items():
            enc[key] = ['tuple'] + [str(x)[:100] for x in v] if isinstance(v, tuple) else [float(x).hex() for x in v.to(torch.float64).reshape(-1).tolist()]
        out['results'][f'{index}|{k}'] = enc
        out['orders'][f'{index}|{k}'] = {kk: sorted(v) for kk, v in spy.sets.items()}
print('RESULT ' + json.dumps(out))
'''


def sub_case(tier, seed, k):
    fggs = env.setup()
    viols = []
    obs = dict(hashseed_runs=0, hashseed_results_compared=0, hashseed_items_with_distinct_orders=0, hashseed_items=0)
    lo, hi = 5000 + k * 6, 5000 + (k + 1) * 6
    procs = {}
    for hs in ('0', '1', '2', '3'):
        envv = dict(os.environ, RV_VERIF=env.VERIF, RV_REPO=env.REPO, PYTHONPATH=env.VERIF, PYTHONDONTWRITEBYTECODE='1', OMP_NUM_THREADS='1', FGGS_VERIF='1', PYTHONHASHSEED=hs)
        procs[hs] = subprocess.Popen([sys.executable, '-B', '-c', SUB_CODE, tier, str(seed), str(lo), str(hi)], env=envv, cwd=env.VERIF, stdout=subprocess.PIPE, stderr=subprocess.PIPE, text=True)
    outs = {}
    for hs, p in procs.items():
        try:
            so, se = p.communicate(timeout=350)
        except subprocess.TimeoutExpired:
            p.kill()
            return dict(cls='hash-seeds', verdict='declined', violations=[], obs=obs, nontrivial=False, key=f'sub{k}', features=['subprocess-timeout'])
        obs['hashseed_runs'] += 1
        line = next((l for l in so.splitlines() if l.startswith('RESULT ')), None)
        if p.returncode != 0 or line is None:
            viols.append(C.viol(f'hashseed:{hs}:crash', f'PYTHONHASHSEED={hs} run exited {p.returncode}: {se[-600:]}'))
            continue
        outs[hs] = json.loads(line[7:])
    if '0' in outs:
        base = outs['0']
        for item, rb in base['results'].items():
            obs['hashseed_items'] += 1
            orders = {json.dumps(outs[hs]['orders'].get(item), sort_keys=True) for hs in outs}
            if len(orders) >= 2:
                obs['hashseed_items_with_distinct_orders'] += 1
            for hs in outs:
                if hs == '0':
                    continue
                ro = outs[hs]['results'].get(item)
                if ro is None:
                    viols.append(C.viol('hashseed:missing', f'{item} missing under PYTHONHASHSEED={hs}'))
                    continue
                for key, vb in rb.items():
                    vo = ro.get(key)
                    obs['hashseed_results_compared'] += 1
                    if vb and vb[0] == 'tuple' or vo and vo and vo[0] == 'tuple':
                        if (vb and vb[0] == 'tuple' and vb[1] == 'error') != (bool(vo) and vo[0] == 'tuple' and vo[1] == 'error'):
                            viols.append(C.viol('hashseed:only-one-side-fails', f'{item} {key}: seed0={vb[:3]} seed{hs}={(vo or [])[:3]}'))
                        continue
                    if vo is None:
                        if not key.startswith('grad'):
                            viols.append(C.viol('hashseed:missing-result', f'{item} {key} missing under PYTHONHASHSEED={hs}'))
                        continue
                    xa = [float.fromhex(x) for x in vb]
                    xb = [float.fromhex(x) for x in vo]
                    if len(xa) != len(xb) or any(not ((x == y) or abs(x - y) <= 1e-9 * max(1.0, abs(x))) for x, y in zip(xa, xb)):
                        viols.append(C.viol(f'hashseed:{key.split("/")[0]}:differs', f'{item} {key}: PYTHONHASHSEED=0 gives {xa[:4]}, {hs} gives {xb[:4]}'))
    return dict(cls='hash-seeds', features=['PYTHONHASHSEED=0..3'], verdict='violated' if viols else 'held', violations=viols, obs=obs, nontrivial=True,
                key=f'sub{k}.{seed}', evals=max(1, obs['hashseed_results_compared']), sample=dict(block='hash seeds', specs=[lo, hi]))


def run_case(tier, seed, index, spec=None, meta=None):
    nsub = N_SUB * (1 if tier == 'quick' else 8)
    if spec is None and index < nsub:
        return sub_case(tier, seed, index)
    if spec is None:
        spec, meta = gen(tier, seed, index)
    res = check_spec(spec, meta, seed, index)
    res.update(cls=meta['cls'], features=sorted(G.features_of(spec)), key=G.spec_key(spec), evals=max(1, res['obs']['comparisons']),
               sample=dict(spec=G.describe(spec), meta=meta))
    for v in res['violations']:
        v['spec'] = spec
        v['meta'] = meta
    return res


def replay(rep):
    if 'spec' in rep and 'meta' in rep:
        return run_case(rep['tier'], rep['seed'], rep['index'], rep['spec'], rep['meta'])
    return run_case(rep['tier'], rep['seed'], rep['index'])


def finalize(tot, tier, seed):
    inc = []
    for k in ('scc', '_order_nonterminals', 'sum_product_edges'):
        if tot['hooks'].get(k, 0) == 0:
            inc.append(f'hook {k} never reached')
    o = tot['obs']
    for k in ('presentations', 'comparisons', 'hashseed_runs', 'hashseed_results_compared'):
        if o.get(k, 0) == 0:
            inc.append(f'{k} never observed')
    if o.get('grammars_with_choice', 0) and o.get('grammars_with_choice_seen_under_2_orders', 0) * 2 < o['grammars_with_choice']:
        inc.append(f"only {o.get('grammars_with_choice_seen_under_2_orders', 0)} of {o['grammars_with_choice']} grammars that offer a choice of order were seen under >= 2 distinct orders")
    if o.get('hashseed_items', 0) and o.get('hashseed_items_with_distinct_orders', 0) == 0:
        inc.append('hash seeds never changed any observed order')
    return {}, inc
