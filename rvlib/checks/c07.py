"""C07 — patterned einsum equals the semiring einsum of the dense operands.

Boundary monitor on fggs.indices.einsum / mv / mm / log_viterbi_einsum_forward; oracle = brute
force nested loops over all index values on independently densified operands."""
import itertools, math
from . import common as C
from ..core import env
from ..gen import fggspec as G
from ..gen import types_patterns as TP
from ..oracle import axis_ref as A
from ..oracle import einsum_ref as E
from ..monitor.hooks import Hooks

PROPERTY = 'C07'
RULE = ('case = one einsum signature (<= 4 typed indices, <= 3 operands, indices repeated across and within operands, any output order) with '
        'well-typed patterned operands (sum/product/shared axes, stride-0 views, zero-size dims, non-zero defaults) evaluated in 4 semirings, '
        'with and without requires_grad (under no_grad), plus mv/mm, the empty operand list and the Viterbi variant with back-pointers; '
        'evaluations = einsum calls compared; non-trivial = some index is summed out and some operand has a non-dense pattern; distinct = signature+operand hashes')
ASSUMPTIONS = ['operands with requires_grad are driven under torch.no_grad() (the context in which SumProduct.forward calls einsum)',
               'Viterbi variant: log-weights in [-inf, finite]; pointers of cells whose maximum is -inf only need to be in range',
               'index sizes <= 6 so that the brute-force reference stays small']
SEMI = ('real', 'log', 'viterbi', 'bool')


def plan(tier, seed):
    return dict(n=3000 if tier == 'quick' else 400000, budget_s=80 if tier == 'quick' else 840, case_timeout=120)


def gen_case(rng, tier, zero_size=False):
    nidx = rng.randint(1, 4)
    names = 'ijkl'[:nidx]
    types = {}
    for n in names:
        types[n] = TP.gen_type(rng, depth=2 if tier == 'quick' or rng.random() < 0.6 else 3, max_numel=6, allow_zero=False)
    if zero_size:
        types[rng.choice(names)] = ('atom', 0)
    nops = rng.choice([1, 2, 2, 2, 3, 3])
    inputs = []
    for _ in range(nops):
        k = rng.choice([0, 1, 1, 2, 2, 2, 3])
        if rng.random() < 0.25 and k >= 2:
            inp = [rng.choice(names) for _ in range(k)]      # may repeat an index within the operand
        else:
            inp = rng.sample(names, min(k, nidx))
        inputs.append(tuple(inp))
    used = []
    for inp in inputs:
        for i in inp:
            if i not in used:
                used.append(i)
    out = [i for i in used if rng.random() < 0.5]
    rng.shuffle(out)
    return types, inputs, tuple(out)


def vals_for(S, rng):
    if S == 'real':
        return [0.0, 0.0, 0.5, 1.0, 2.0, 1.5, 0.25, math.inf], [0.0, 0.0, 0.0, 1.0, 2.5]
    if S == 'bool':
        return [False, True, True], [False, False, True]
    return [-math.inf, -math.inf, -2.0, -0.5, 0.0, 1.0, -1.25, -3.0] + ([math.inf] if S == 'log' else []), [-math.inf, -math.inf, -math.inf, 0.0, -1.5]


def run_case(tier, seed, index, spec=None):
    import torch
    fggs = env.setup()
    I = env.mod('fggs.indices')
    EQ = env.mod('fggs.equation')
    rng = G.rng_for(seed, 'C07', tier, index)
    viols = []
    obs = dict(einsum_calls=0, viterbi_calls=0, reductions_dropping_stride0=0, unification_failures_zero=0, grad_path_calls=0, mv_mm_calls=0, pointer_cells_checked=0)
    zero_size = index % 9 == 4
    types, inputs, output = gen_case(rng, tier, zero_size)
    sizes = {n: TP.t_numel(T) for n, T in types.items()}
    S = SEMI[index % 4]
    dt = torch.float32 if (index // 4) % 5 == 4 else torch.float64
    dtype = torch.bool if S == 'bool' else dt
    sr = G.make_semiring(fggs, S, dt)
    vals, defs = vals_for(S, rng)
    specs, tens, dens = [], [], []
    for inp in inputs:
        ps = TP.gen_pattern(rng, [types[i] for i in inp], lambda: rng.choice(vals), rng.choice(defs), expand_p=0.3)
        if tens:
            t, _ = TP.realise_sharing(I, rng, ps, dtype, tens[0])
        else:
            t = TP.realise(I, ps, dtype)
        specs.append(ps)
        tens.append(t)
        dens.append(torch.tensor(A.densify(ps)[0], dtype=dtype).reshape(A.shape_of(ps)))
    info = dict(signature=f"{','.join(''.join(i) for i in inputs)}->{''.join(output)}", types={n: repr(T) for n, T in types.items()},
                operands=[TP.depict(p) for p in specs], semiring=S, dtype=str(dt), specs=specs)
    ref = E.einsum(dens, inputs, output, sizes, S)
    exp = E.to_tensor(ref, output, sizes, dtype)
    tolname = 'bool' if S == 'bool' else ('float32' if dt == torch.float32 else 'float64')

    def V(sig, msg, **kw):
        viols.append(C.viol(sig, msg, case=info, **kw))

    with Hooks() as h:
        def on_ret(r, a, k):
            views, eq, unsq, shape = r
            if unsq:
                obs['reductions_dropping_stride0'] += 1
        h.spy(I, 'reduce_equation', on_return=on_ret, key='reduce_equation')
        for grad in (False, True):
            if grad and S == 'bool':
                continue
            ops = tens
            if grad:
                ops = [t.clone() for t in tens]
                for t in ops:
                    t.physical.requires_grad_()
                obs['grad_path_calls'] += 1

            def call():
                with torch.no_grad():
                    return I.einsum(ops, inputs, output, sr)
            out = C.call(call)
            obs['einsum_calls'] += 1
            tag = 'grad-path' if grad else 'reduced-path'
            if not out['ok']:
                V(f"exception:einsum:{out['exc_type']}:{out.get('where', '')}", f'einsum ({tag}) raised {out["exc"]}', traceback=out['tb'])
                continue
            if any('index type mismatch' in w for w in out['warnings']):
                obs['type_mismatch_warnings'] = obs.get('type_mismatch_warnings', 0) + 1
            r = out['value']
            inv = A.check_invariant(r)
            if inv:
                V('invariant:einsum', inv)
                continue
            got = A.densify_pt(r)
            msg = C.close_tensor(got, exp, tolname)
            if msg:
                V(f'value:einsum:{S}', f'({tag}) {msg}')
            if S != 'bool' and r.physical.dtype != dt:
                V('dtype:einsum', f'result dtype {r.physical.dtype}')
        # mv / mm shorthands when the signature fits
        if len(tens) >= 2:
            a, b = tens[0], tens[1]
            da, db = dens[0], dens[1]
            if da.ndim == 2 and db.ndim == 1 and da.shape[1] == db.shape[0] and types[inputs[0][1]] == types[inputs[1][0]]:
                o = C.call(lambda: a.mv(b, sr))
                obs['mv_mm_calls'] += 1
                e2 = E.to_tensor(E.einsum([da, db], [('i', 'j'), ('j',)], ('i',), dict(i=da.shape[0], j=da.shape[1]), S), ('i',), dict(i=da.shape[0], j=da.shape[1]), dtype)
                if not o['ok']:
                    V(f"exception:mv:{o['exc_type']}:{o.get('where', '')}", f'mv raised {o["exc"]}', traceback=o['tb'])
                else:
                    m = C.close_tensor(A.densify_pt(o['value']), e2, tolname)
                    if m:
                        V(f'value:mv:{S}', m)
            if da.ndim == 2 and db.ndim == 2 and da.shape[1] == db.shape[0] and types[inputs[0][1]] == types[inputs[1][0]]:
                o = C.call(lambda: a.mm(b, sr))
                obs['mv_mm_calls'] += 1
                sz = dict(i=da.shape[0], j=da.shape[1], k=db.shape[1])
                e2 = E.to_tensor(E.einsum([da, db], [('i', 'j'), ('j', 'k')], ('i', 'k'), sz, S), ('i', 'k'), sz, dtype)
                if not o['ok']:
                    V(f"exception:mm:{o['exc_type']}:{o.get('where', '')}", f'mm raised {o["exc"]}', traceback=o['tb'])
                else:
                    m = C.close_tensor(A.densify_pt(o['value']), e2, tolname)
                    if m:
                        V(f'value:mm:{S}', m)
        # matrix shorthands on a fresh square pair (always exercised)
        if index % 3 == 0:
            T = TP.gen_type(rng, 2, 6)
            p1 = TP.gen_pattern(rng, [T, T], lambda: rng.choice(vals), rng.choice(defs))
            p2 = TP.gen_pattern(rng, [T, T], lambda: rng.choice(vals), rng.choice(defs))
            p3 = TP.gen_pattern(rng, [T], lambda: rng.choice(vals), rng.choice(defs))
            a, b, v = (TP.realise(I, p, dtype) for p in (p1, p2, p3))
            da, db, dv = (torch.tensor(A.densify(p)[0], dtype=dtype).reshape(A.shape_of(p)) for p in (p1, p2, p3))
            n = TP.t_numel(T)
            sz = dict(i=n, j=n, k=n)
            for nm, lib, ref2, outi in (('mm', lambda: a.mm(b, sr), E.einsum([da, db], [('i', 'j'), ('j', 'k')], ('i', 'k'), sz, S), ('i', 'k')),
                                        ('mv', lambda: a.mv(v, sr), E.einsum([da, dv], [('i', 'j'), ('j',)], ('i',), sz, S), ('i',))):
                o = C.call(lib)
                obs['mv_mm_calls'] += 1
                if not o['ok']:
                    V(f"exception:{nm}:{o['exc_type']}:{o.get('where', '')}", f'{nm} raised {o["exc"]}', traceback=o['tb'], a=TP.depict(p1), b=TP.depict(p2))
                else:
                    m = C.close_tensor(A.densify_pt(o['value']), E.to_tensor(ref2, outi, sz, dtype), tolname)
                    if m:
                        V(f'value:{nm}:{S}', m, a=TP.depict(p1), b=TP.depict(p2), v=TP.depict(p3))
        # the semiring objects' own dense shorthands: Semiring.mm(A, B) / Semiring.mv(A, v) on torch Tensors
        # (inner dimensions beyond 10 reach mm's blocked accumulation)
        if index % 4 == 1:
            ni, nj, nk = rng.randint(1, 4), rng.choice([1, 2, 3, 9, 10, 11, 19, 20, 21, 23]), rng.randint(1, 4)
            mk = lambda *sh: torch.tensor([rng.choice(vals) for _ in range(math.prod(sh))], dtype=dtype).reshape(sh)
            da, db, dv = mk(ni, nj), mk(nj, nk), mk(nj)
            sz = dict(i=ni, j=nj, k=nk)
            for nm, lib, ref2, outi in (('Semiring.mm', lambda: sr.mm(da.clone(), db.clone()), E.einsum([da, db], [('i', 'j'), ('j', 'k')], ('i', 'k'), sz, S), ('i', 'k')),
                                        ('Semiring.mv', lambda: sr.mv(da.clone(), dv.clone()), E.einsum([da, dv], [('i', 'j'), ('j',)], ('i',), sz, S), ('i',))):
                o = C.call(lib)
                obs['mv_mm_calls'] += 1
                obs['dense_mv_mm_calls'] = obs.get('dense_mv_mm_calls', 0) + 1
                e2 = E.to_tensor(ref2, outi, sz, dtype)
                if not o['ok']:
                    V(f"exception:{nm}:{o['exc_type']}:{o.get('where', '')}", f'{nm} raised {o["exc"]}', traceback=o['tb'], shapes=[ni, nj, nk])
                elif not isinstance(o['value'], torch.Tensor) or o['value'].dtype != e2.dtype or tuple(o['value'].shape) != tuple(e2.shape):
                    V(f'value:{nm}:{S}:shape-or-dtype', f'{nm} returned {type(o["value"]).__name__} {getattr(o["value"], "dtype", None)} {tuple(getattr(o["value"], "shape", ()))}, expected {e2.dtype} {tuple(e2.shape)}', shapes=[ni, nj, nk])
                else:
                    m = C.close_tensor(o['value'], e2, tolname)
                    if m:
                        V(f'value:{nm}:{S}', m, shapes=[ni, nj, nk])
        # chained operations: an operand that is itself the RESULT of an earlier library operation (its size-1 axis is
        # whatever unit axis that operation produced, not the module constant) meets an operand whose size-1 axis is typed
        # as a one-summand sum 0 + () + 0 -- the library says these unify (PatternedTensor.__post_init__ comment)
        if index % 11 == 6:
            zero = {'real': 0.0, 'log': -math.inf, 'viterbi': -math.inf, 'bool': False}[S]
            n, m = rng.randint(1, 4), rng.randint(1, 5)
            mk = lambda *sh: torch.tensor([rng.choice(vals) for _ in range(math.prod(sh))], dtype=dtype).reshape(sh)
            dM, dw, da = mk(1, m), mk(m), mk(n)
            szv = dict(i=1, j=m)
            dv = E.to_tensor(E.einsum([dM, dw], [('i', 'j'), ('j',)], ('i',), szv, S), ('i',), szv, dtype)
            sz = dict(i=n, j=1)
            e2 = E.to_tensor(E.einsum([da.reshape(n, 1), dv], [('i', 'j'), ('j',)], ('i',), sz, S), ('i',), sz, dtype)
            X = I.PhysicalAxis(n)
            mkA = lambda: I.PatternedTensor(da.clone(), (X,), (X, I.SumAxis(0, I.unitAxis, 0)), default=zero)
            first = C.call(lambda: I.PatternedTensor(dM.clone(), default=zero).mv(I.PatternedTensor(dw.clone(), default=zero), sr))
            obs['chained_calls'] = obs.get('chained_calls', 0) + 1
            if not first['ok']:
                V(f"exception:mv:{first['exc_type']}:{first.get('where', '')}", f'mv raised {first["exc"]}', traceback=first['tb'])
            else:
                v = first['value']
                for nm, lib in (('mv-after-mv', lambda: mkA().mv(v, sr)),
                                ('einsum-after-mv', lambda: I.einsum([v, mkA()], ['j', 'ij'], 'i', sr)),
                                ('mv-fresh-vector', lambda: mkA().mv(I.PatternedTensor(dv.clone(), default=zero), sr))):
                    o = C.call(lib)
                    obs['mv_mm_calls'] += 1
                    if not o['ok']:
                        V(f"exception:{nm}:{o['exc_type']}:{o.get('where', '')}", f'{nm} raised {o["exc"]}', traceback=o['tb'], shapes=[n, m])
                    else:
                        mm_ = C.close_tensor(A.densify_pt(o['value']), e2, tolname)
                        if mm_:
                            V(f'value:chained:{nm}:{S}', mm_, shapes=[n, m], a=da.tolist(), M=dM.tolist(), w=dw.tolist())
        # empty operand list
        if index % 50 == 0:
            o = C.call(lambda: I.einsum([], [], [], sr))
            if not o['ok'] or A.densify_pt(o['value']).item() != {'real': 1.0, 'log': 0.0, 'viterbi': 0.0, 'bool': True}[S]:
                V('value:einsum-empty', f'einsum of no operands = {o["value"] if o["ok"] else o["exc"]}')
        # Viterbi variant
        if S == 'viterbi':
            viterbi_variant(I, sr, rng, tens, dens, specs, inputs, output, sizes, dt, V, obs)
        hooks = dict(h.count)
    if (exp == (False if S == 'bool' else (0.0 if S == 'real' else -math.inf))).all() and exp.numel():
        obs['unification_failures_zero'] += 1
    nontrivial = any(i not in output for inp in inputs for i in inp) and any(not all(isinstance(v, int) for v in ps['vaxes']) for ps in specs)
    return dict(cls=S, features=[S, str(dt).replace('torch.', '')] + (['zero-size'] if zero_size else []) + (['repeated-index-in-operand'] if any(len(set(i)) < len(i) for i in inputs) else []),
                verdict='violated' if viols else 'held', violations=viols, obs=obs, hooks=hooks, nontrivial=nontrivial,
                key=C.hkey([inputs, output, specs, S, str(dt)]), evals=max(1, obs['einsum_calls'] + obs['viterbi_calls'] + obs['mv_mm_calls']),
                sample=dict(signature=info['signature'], types=info['types'], operands=info['operands'], semiring=S))


def viterbi_variant(I, sr, rng, tens, dens, specs, inputs, output, sizes, dt, V, obs):
    import torch
    for grad in (False, True):
        ops = tens
        if grad:
            ops = [t.clone() for t in tens]
            for t in ops:
                t.physical.requires_grad_()

        def call():
            with torch.no_grad():
                return I.log_viterbi_einsum_forward(ops, inputs, output, sr)
        out = C.call(call)
        obs['viterbi_calls'] += 1
        if not out['ok']:
            V(f"exception:log_viterbi_einsum_forward:{out['exc_type']}:{out.get('where', '')}", f'log_viterbi_einsum_forward raised {out["exc"]}', traceback=out['tb'])
            continue
        val, ptr = out['value']
        ref, arg, summed = E.einsum(dens, inputs, output, sizes, 'viterbi', want_argmax=True)
        exp = E.to_tensor(ref, output, sizes, dt)
        got = A.densify_pt(val)
        m = C.close_tensor(got, exp, 'float64' if dt == torch.float64 else 'float32')
        if m:
            V('value:viterbi-einsum', m)
            continue
        pd = A.densify_pt(ptr)
        want_shape = tuple(exp.shape) + (len(summed),)
        if tuple(pd.shape) != want_shape:
            V('pointer-shape', f'pointer tensor has shape {tuple(pd.shape)}, expected {want_shape} (summed-out indices {summed})')
            continue
        lists = [d.tolist() for d in dens]
        for o in itertools.product(*[range(sizes[i]) for i in output]):
            if any(sizes[i] == 0 for i in summed):
                break
            best = ref[o]
            p = [int(x) for x in (pd[o].tolist() if o else pd.reshape(-1).tolist())] if summed else []
            obs['pointer_cells_checked'] += 1
            if any(not (0 <= x < sizes[i]) for x, i in zip(p, summed)):
                V('pointer-out-of-range', f'cell {o}: pointer {p} outside the index ranges {[sizes[i] for i in summed]}')
                break
            if best == -math.inf:
                continue
            asst = dict(zip(output, o))
            asst.update(zip(summed, p))
            tot = 0.0
            for k, inp in enumerate(inputs):
                x = lists[k]
                for i in inp:
                    x = x[asst[i]]
                tot = tot + x if not (tot == -math.inf or x == -math.inf) else -math.inf
            if abs(tot - best) > 1e-9 * max(1.0, abs(best)) if tot != -math.inf else True:
                V('pointer-not-argmax', f'cell {o}: pointer {dict(zip(summed, p))} gives {tot!r}, the maximum is {best!r}')
                break


def finalize(tot, tier, seed):
    inc = []
    if tot['hooks'].get('reduce_equation', 0) == 0:
        inc.append('hook reduce_equation never reached')
    for k in ('einsum_calls', 'viterbi_calls', 'reductions_dropping_stride0', 'unification_failures_zero', 'grad_path_calls', 'mv_mm_calls', 'pointer_cells_checked', 'chained_calls'):
        if tot['obs'].get(k, 0) == 0:
            inc.append(f'{k} never observed')
    for f in ('zero-size', 'repeated-index-in-operand', 'float32'):
        if tot['features'].get(f, 0) == 0:
            inc.append(f'feature {f} never generated')
    w = tot['obs'].get('type_mismatch_warnings', 0)
    if w > 0.02 * max(1, tot['obs'].get('einsum_calls', 1)):
        inc.append(f'{w} index-type-mismatch warnings: generator produced ill-typed operands')
    return {}, inc
