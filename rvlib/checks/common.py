"""Helpers shared by the check modules."""
import math, traceback, warnings, hashlib, json

TOL = {'float64': dict(rtol=1e-9, atol=1e-12), 'float32': dict(rtol=2e-4, atol=1e-6)}


def dtname(dtype):
    return str(dtype).replace('torch.', '')


def call(fn, *a, **k):
    """run a library call; capture result / exception / warnings (boundary monitor)"""
    out = dict(ok=False, value=None, exc=None, exc_type=None, warnings=[], tb=None)
    with warnings.catch_warnings(record=True) as w:
        warnings.simplefilter('always')
        try:
            out['value'] = fn(*a, **k)
            out['ok'] = True
        except RecursionError as e:
            out['exc'], out['exc_type'] = 'RecursionError', 'RecursionError'
            out['tb'] = 'RecursionError'
        except Exception as e:
            out['exc'] = f'{type(e).__name__}: {e}'[:500]
            out['exc_type'] = type(e).__name__
            out['tb'] = traceback.format_exc()[-2500:]
            out['where'] = where_in_repo(e)
    out['warnings'] = [str(x.message) for x in w]
    return out


def where_in_repo(e):
    from ..core import env
    import os
    root = os.path.join(os.path.realpath(env.REPO), 'fggs') + os.sep
    where = ''
    for fr in traceback.extract_tb(e.__traceback__):
        if os.path.realpath(fr.filename).startswith(root):
            where = f'{os.path.basename(fr.filename)}:{fr.name}'
    return where


def viol(sig, msg, **details):
    d = dict(sig=sig, msg=msg)
    d.update(details)
    return d


def close_tensor(obs, exp, dtype_name, rtol=None, atol=None):
    """obs, exp: dense torch tensors (exp float64).  Returns None if acceptable else a message.
    Same positions of +-inf and exact zeros are required; finite entries within tolerance."""
    import torch
    if tuple(obs.shape) != tuple(exp.shape):
        return f'shape {tuple(obs.shape)} != expected {tuple(exp.shape)}'
    if obs.dtype == torch.bool or exp.dtype == torch.bool:
        if not torch.equal(obs.to(torch.bool), exp.to(torch.bool)):
            return f'boolean mismatch obs={obs.tolist()} exp={exp.tolist()}'
        return None
    tol = TOL.get(dtype_name, TOL['float64'])
    rtol = tol['rtol'] if rtol is None else rtol
    atol = tol['atol'] if atol is None else atol
    o = obs.to(torch.float64)
    e = exp.to(torch.float64)
    if torch.isnan(o).any():
        return f'NaN in result {o.tolist()} (expected {e.tolist()})'
    if dtype_name == 'float32':
        # expected values beyond float32 range legitimately saturate
        big = e.abs() > 3.0e38
        e = torch.where(big & torch.isfinite(e), torch.sign(e) * math.inf, e)
    if not torch.equal(torch.isposinf(o), torch.isposinf(e)) or not torch.equal(torch.isneginf(o), torch.isneginf(e)):
        return f'infinite entries differ: obs={o.tolist()} exp={e.tolist()}'
    fin = torch.isfinite(e)
    if fin.any():
        d = (o[fin] - e[fin]).abs()
        lim = atol + rtol * e[fin].abs()
        if (d > lim).any():
            i = int((d - lim).argmax())
            return f'value mismatch: obs={o[fin][i].item()!r} exp={e[fin][i].item()!r} (|diff|={d[i].item():.3e}); obs={o.tolist()} exp={e.tolist()}'
    return None


def zero_positions_differ(obs, exp):
    import torch
    o = obs.to(torch.float64)
    e = exp.to(torch.float64)
    return not torch.equal(o == 0, e == 0)


def short(x, n=400):
    s = str(x)
    return s if len(s) <= n else s[:n] + '...'


def hkey(obj, n=12):
    return hashlib.sha1(json.dumps(obj, sort_keys=True, default=str).encode()).hexdigest()[:n]
