"""C15 — hyperedge replacement is typed, fresh and order-independent.

(a) contract hook on replace_edge (also around the calls derive() makes): host snapshot before,
    post-state checked against the statement; wrong type => ValueError and host unchanged;
(b) confluence: the replacements of a generated derivation tree are carried out in every
    linearisation (exhaustive when <= 720 orders, else 200 sampled); all results must be
    isomorphic to each other and to an independent plain-data expansion;
(c) FGGDerivation.derive(): graph isomorphic to those, assignment total, total weight = product of
    the rule-instance weights."""
import itertools, math
from . import common as C
from ..core import env
from ..gen import fggspec as G
from ..oracle import iso
from ..monitor import graphinv as GI
from ..monitor.hooks import Hooks

PROPERTY = 'C15'
RULE = ('case = one generated HRG/FGG spec and one derivation tree over it (<= 6 rule instances quick / 9 thorough, the same rule used '
        'repeatedly), rewritten in all linearisations of the pending nonterminal edges (exhaustive when <= 720 orders); evaluations = '
        'replace_edge calls checked; non-trivial = derivation with >= 3 rule instances and >= 2 linearisations; distinct = (spec, tree) hashes')
ASSUMPTIONS = ['rules have pairwise distinct external nodes (replace_edge maps a repeated external to its last attachment)', 'isomorphism checker: backtracking, graphs <= 40 nodes with label/incidence pruning']


def plan(tier, seed):
    return dict(n=1800 if tier == 'quick' else 80000, budget_s=75 if tier == 'quick' else 840, case_timeout=120)


def gen_tree(rng, spec, max_inst):
    """derivation tree as nested dict(rule=ri, children={edge index: subtree}); None if impossible"""
    by_lhs = {}
    for ri, r in enumerate(spec['rules']):
        by_lhs.setdefault(r['lhs'], []).append(ri)
    # minimal number of instances needed to finish a nonterminal
    INF = 10 ** 6
    cost = {n: INF for n in spec['nonterminals']}
    changed = True
    while changed:
        changed = False
        for n, rs in by_lhs.items():
            for ri in rs:
                c = 1 + sum(cost[l] for l, _ in spec['rules'][ri]['edges'] if l in spec['nonterminals'])
                if c < cost[n]:
                    cost[n] = c
                    changed = True
    if cost[spec['start']] > max_inst:
        return None
    budget = [max_inst]

    def rcost(ri):
        return 1 + sum(cost[l] for l, _ in spec['rules'][ri]['edges'] if l in spec['nonterminals'])

    def build(nt, allowed):
        cands = [ri for ri in by_lhs.get(nt, []) if rcost(ri) <= allowed]
        if not cands:
            return None
        big = [ri for ri in cands if sum(1 for l, _ in spec['rules'][ri]['edges'] if l in spec['nonterminals']) >= 2]
        ri = rng.choice(big) if big and rng.random() < 0.6 else rng.choice(cands) if rng.random() < 0.8 else min(cands, key=rcost)
        r = spec['rules'][ri]
        nts = [(ei, l) for ei, (l, _) in enumerate(r['edges']) if l in spec['nonterminals']]
        left = allowed - 1
        need = sum(cost[l] for _, l in nts)
        node = dict(rule=ri, children={})
        for ei, l in nts:
            need -= cost[l]
            sub = build(l, left - need)
            if sub is None:
                return None
            node['children'][ei] = sub
            left -= count(sub)
        return node
    return build(spec['start'], max_inst)


def count(t):
    return 1 + sum(count(c) for c in t['children'].values())


def plain_expand(spec, tree):
    """independent expansion on plain data, depth first"""
    def lab(name):
        term = name in spec['terminals']
        return (name, term, tuple(spec['terminals'][name] if term else spec['nonterminals'][name]))
    s = spec['start']
    host = dict(nodes=list(spec['nonterminals'][s]), edges=[(('#pending', 0), tuple(range(len(spec['nonterminals'][s]))))], ext=())
    counter = [1]
    pending = {0: tree}
    while pending:
        pid, t = next(iter(pending.items()))
        del pending[pid]
        ei = next(i for i, (l, _) in enumerate(host['edges']) if l == ('#pending', pid))
        r = spec['rules'][t['rule']]
        edges = []
        for k, (l, att) in enumerate(r['edges']):
            if k in t['children']:
                nid = counter[0]
                counter[0] += 1
                pending[nid] = t['children'][k]
                edges.append((('#pending', nid), tuple(att)))
            else:
                edges.append((lab(l), tuple(att)))
        host = iso.replace(host, ei, dict(nodes=list(r['nodes']), edges=edges, ext=tuple(r['ext'])))
    return host


def all_orders(tree, limit):
    """all linearisations of the rewriting steps (a step = tree node, available once its parent is done)"""
    out = []
    ids = {}

    def number(t, path):
        ids[path] = t
        for k, c in t['children'].items():
            number(c, path + (k,))
    number(tree, ())

    def rec(avail, done):
        if len(out) >= limit:
            return
        if not avail:
            out.append(list(done))
            return
        for p in sorted(avail):
            nxt = set(avail)
            nxt.discard(p)
            for k in ids[p]['children']:
                nxt.add(p + (k,))
            done.append(p)
            rec(nxt, done)
            done.pop()
    rec({()}, [])
    return out, ids


class Contract:
    """pre/post-condition monitor of replace_edge"""

    def __init__(self, viols, obs):
        self.viols, self.obs = viols, obs

    def wrap(self, orig):
        def w(graph, edge, replacement):
            pre_nodes = list(graph.nodes())
            pre_edges = list(graph.edges())
            pre_ext = tuple(graph.ext)
            rep_before = GI.snap_graph(replacement)
            type_ok = tuple(edge.label.type) == tuple(replacement.type)
            try:
                res = orig(graph, edge, replacement)
            except Exception:
                if type_ok:
                    raise
                if list(graph.nodes()) != pre_nodes or list(graph.edges()) != pre_edges or tuple(graph.ext) != pre_ext:
                    self.viols.append(C.viol('contract:rejected-replacement-changed-host', 'replace_edge raised ValueError for a wrong-typed replacement but changed the host graph'))
                raise
            self.obs['replace_edge_calls'] += 1
            bad = []
            if not type_ok:
                bad.append('a replacement of the wrong type was accepted')
            node_map, edge_map = res
            post_nodes = list(graph.nodes())
            post_edges = list(graph.edges())
            if edge in post_edges:
                bad.append('the replaced edge is still in the graph')
            if [e for e in pre_edges if e is not edge and e not in post_edges] or [n for n in pre_nodes if n not in post_nodes]:
                bad.append('other edges or nodes of the host disappeared')
            if tuple(graph.ext) != pre_ext:
                bad.append('external nodes of the host changed')
            if GI.snap_graph(replacement) != rep_before:
                bad.append('the replacement graph was modified')
            rext = list(replacement.ext)
            for i, rn in enumerate(rext):
                if node_map.get(rn) is not edge.nodes[i] and node_map.get(rn) != edge.nodes[i]:
                    bad.append(f'external node {i} not identified with attachment node {i}')
            new_nodes = [n for n in post_nodes if n not in pre_nodes]
            inner = [rn for rn in replacement.nodes() if rn not in rext]
            if len(new_nodes) != len(inner):
                bad.append(f'{len(new_nodes)} new nodes for {len(inner)} internal nodes of the replacement')
            for rn in inner:
                gn = node_map.get(rn)
                if gn is None or gn in pre_nodes or gn not in post_nodes or gn.label != rn.label or gn is rn or gn.id == rn.id:
                    bad.append('an internal node was not copied freshly with its label')
                    break
            if len({id(node_map[rn]) for rn in inner if rn in node_map}) != len(inner):
                bad.append('two internal nodes share a copy')
            new_edges = [e for e in post_edges if e not in pre_edges]
            redges = list(replacement.edges())
            if len(new_edges) != len(redges):
                bad.append(f'{len(new_edges)} new edges for {len(redges)} edges of the replacement')
            for re_ in redges:
                ge = edge_map.get(re_)
                if ge is None or ge not in post_edges or ge in pre_edges or ge.label != re_.label or ge.id == re_.id or \
                   tuple(ge.nodes) != tuple(node_map.get(n) for n in re_.nodes):
                    bad.append('an edge was not copied with its label and attachment order')
                    break
            d = GI.graph_defects(graph)
            if d:
                bad.append('host graph malformed afterwards: ' + d[0])
            if bad:
                self.viols.append(C.viol('contract:' + ('wrong-type-accepted' if not type_ok else 'post-state'), '; '.join(bad[:4])))
            return res
        return w


def realise_tree(fggs, info, tree):
    """FGGDerivation objects need assignments; built separately in derive_check"""
    return tree


def run_case(tier, seed, index, spec=None, tree=None):
    import torch
    fggs = env.setup()
    D = env.mod('fggs.derivations')
    rng = G.rng_for(seed, 'C15', tier, index)
    viols = []
    obs = dict(replace_edge_calls=0, linearisations=0, derive_calls=0, wrong_type_attempts=0, iso_checks=0)
    max_inst = 6 if tier == 'quick' else 9
    cls = ('nonlinear', 'mixed', 'nonrec', 'nonlinear', 'linear', 'unitcycle')[index % 6]
    if spec is None:
        for attempt in range(6):
            forced = [rng.choice(['edgeless-internal', 'edge-twice', 'nullary', 'start-arity', 'edgeless-ext', 'many-rules', 'plain', 'shared-factor'])]
            spec = G.gen_spec(rng, cls, forced, allow_inf=False, wdomain='log', grid=True)
            tree = gen_tree(rng, spec, rng.randint(3, max_inst))
            if tree is not None:
                break
        else:
            return dict(cls=cls, verdict='declined', violations=[], obs=obs, nontrivial=False, key=f'd{index}')
    ninst = count(tree)
    fgg, info = G.build_fgg(fggs, spec, 'viterbi', torch.float64, explicit_ids=index % 2 == 0)
    expected = plain_expand(spec, tree)
    orders, ids = all_orders(tree, 720)
    exhaustive = len(orders) < 720
    if not exhaustive:
        extra = []
        for _ in range(200):
            # random linearisation
            avail, done = {()}, []
            while avail:
                p = rng.choice(sorted(avail))
                avail.discard(p)
                for k in ids[p]['children']:
                    avail.add(p + (k,))
                done.append(p)
            extra.append(done)
        orders = orders[:100] + extra
    with Hooks() as h:
        contract = Contract(viols, obs)
        h.wrap(D, 'replace_edge', contract.wrap, key='replace_edge')
        h.hit('replace_edge', 0)
        first_plain = None
        for order in orders:
            g = D.start_graph(fgg)
            if order is orders[0]:
                sg = iso.from_graph(g)
                s = spec['start']
                if sg['nodes'] != list(spec['nonterminals'][s]) or len(sg['edges']) != 1 or sg['edges'][0][0][0] != s or sg['edges'][0][1] != tuple(range(len(sg['nodes']))) or sg['ext'] != ():
                    viols.append(C.viol('start_graph', f'start_graph = {sg}'))
            host_edge = {(): next(iter(g.edges()))}
            ok = True
            for p in order:
                t = ids[p]
                rule = info['rules'][t['rule']]
                out = C.call(D.replace_edge, g, host_edge[p], rule.rhs)
                if not out['ok']:
                    viols.append(C.viol(f"exception:replace_edge:{out['exc_type']}:{out.get('where', '')}", f'replace_edge raised {out["exc"]}', traceback=out['tb']))
                    ok = False
                    break
                node_map, edge_map = out['value']
                for k in t['children']:
                    host_edge[p + (k,)] = edge_map[info['edges'][t['rule'], k]]
            obs['linearisations'] += 1
            if not ok or viols:
                break
            got = iso.from_graph(g)
            obs['iso_checks'] += 1
            if first_plain is None:
                first_plain = got
                if not iso.isomorphic(got, expected):
                    viols.append(C.viol('result-differs-from-independent-expansion', f'order {order}: {len(got["nodes"])} nodes/{len(got["edges"])} edges, expected {len(expected["nodes"])}/{len(expected["edges"])}'))
                    break
            elif not iso.isomorphic(got, first_plain):
                viols.append(C.viol('not-confluent', f'rewriting in order {order} gives a graph not isomorphic to order {orders[0]}'))
                break
            d = GI.graph_defects(g)
            if d:
                viols.append(C.viol('derived-graph-malformed', d[0]))
                break
        # wrong-typed replacement must be rejected, host unchanged
        g = D.start_graph(fgg)
        e0 = next(iter(g.edges()))
        wrong = next((r for r in info['rules'].values() if tuple(r.rhs.type) != tuple(e0.label.type)), None)
        if wrong is not None:
            before = GI.snap_graph(g)
            out = C.call(D.replace_edge, g, e0, wrong.rhs)
            obs['wrong_type_attempts'] += 1
            if out['ok']:
                if not any(v['sig'].startswith('contract:wrong-type') for v in viols):
                    viols.append(C.viol('contract:wrong-type-accepted', 'replace_edge accepted a replacement of another type'))
            elif GI.snap_graph(g) != before:      # any exception is a rejection
                viols.append(C.viol('contract:rejected-replacement-changed-host', 'host changed by a rejected replacement'))
        # (c) derive()
        if not viols:
            derive_check(fggs, D, rng, spec, fgg, info, tree, expected, viols, obs)
        hooks = dict(h.count)
        hooks['replace_edge'] = obs['replace_edge_calls']
    for v in viols:
        v['spec'] = spec
        v['tree'] = tree
    return dict(cls=cls, features=sorted(G.features_of(spec, light=True)) + (['all-linearisations'] if exhaustive else ['sampled-linearisations']) + (['rule-used-twice'] if ninst > len({t['rule'] for t in ids.values()}) else []),
                verdict='violated' if viols else 'held', violations=viols, obs=obs, hooks=hooks, nontrivial=ninst >= 3 and len(orders) >= 2,
                key=C.hkey([spec, tree]), evals=max(1, obs['replace_edge_calls']), sets=dict(linearisation_counts=[f'{index}:{len(orders)}']),
                sample=dict(spec=G.describe(spec), tree=tree, rule_instances=ninst, linearisations=len(orders), exhaustive=exhaustive))


def derive_check(fggs, D, rng, spec, fgg, info, tree, expected, viols, obs):
    total = [0.0]

    shared = {}       # leaf derivations used at several positions may be the very same object

    def build(t, ext_vals):
        ri = t['rule']
        r = spec['rules'][ri]
        key = (ri, tuple(ext_vals))
        if not t['children'] and key in shared and rng.random() < 0.7:
            obj, w = shared[key]
            total[0] = total[0] + w if not (total[0] == -math.inf or w == -math.inf) else -math.inf
            obs['shared_subderivation_objects'] = obs.get('shared_subderivation_objects', 0) + 1
            return obj
        before = total[0]
        total[0] = 0.0
        vals = {}
        for v, x in zip(r['ext'], ext_vals):
            vals[v] = x
        for v, l in enumerate(r['nodes']):
            if v not in vals:
                vals[v] = rng.randrange(spec['domains'][l])
        for ei, (lab, att) in enumerate(r['edges']):
            if lab in spec['terminals']:
                x = G.get_nested(G.weights_in(spec, lab, 'viterbi'), [vals[v] for v in att])
                total[0] = total[0] + x if not (total[0] == -math.inf or x == -math.inf) else -math.inf
        asst = {info['nodes'][ri][v]: x for v, x in vals.items()}
        own = total[0]
        total[0] = before + own if not (before == -math.inf or own == -math.inf) else -math.inf
        children = {info['edges'][ri, k]: build(c, [vals[v] for v in r['edges'][k][1]]) for k, c in t['children'].items()}
        obj = D.FGGDerivation(fgg, info['rules'][ri], asst, children)
        if not t['children']:
            shared[key] = (obj, own)
        return obj
    s = spec['start']
    ext_vals = [rng.randrange(spec['domains'][l]) for l in spec['nonterminals'][s]]
    d = build(tree, ext_vals)
    out = C.call(d.derive)
    obs['derive_calls'] += 1
    if not out['ok']:
        viols.append(C.viol(f"exception:derive:{out['exc_type']}:{out.get('where', '')}", f'derive() raised {out["exc"]}', traceback=out['tb']))
        return
    graph, asst = out['value']
    got = iso.from_graph(graph)
    obs['iso_checks'] += 1
    if not iso.isomorphic(got, expected):
        viols.append(C.viol('derive-graph-differs', f'derive() graph has {len(got["nodes"])} nodes/{len(got["edges"])} edges; expected {len(expected["nodes"])}/{len(expected["edges"])} (or not isomorphic)'))
        return
    missing = [n for n in graph.nodes() if n not in asst]
    if missing or len(asst) != len(list(graph.nodes())):
        viols.append(C.viol('derive-assignment-not-total', f'{len(missing)} nodes of the derived graph have no value ({len(asst)} values for {len(list(graph.nodes()))} nodes)'))
        return
    w = 0.0
    for e in graph.edges():
        x = G.get_nested(G.weights_in(spec, e.label.name, 'viterbi'), [asst[n] for n in e.nodes])
        w = w + x if not (w == -math.inf or x == -math.inf) else -math.inf
    if not (w == total[0] or abs(w - total[0]) <= 1e-9 * max(1.0, abs(total[0]))):
        viols.append(C.viol('derive-weight', f'weight of derive() graph under its assignment = {w!r}, product of rule-instance weights = {total[0]!r}'))
    if graph.domains is not fgg.domains and graph.domains != fgg.domains:
        viols.append(C.viol('derive-interpretation', 'derived factor graph does not carry the grammar\'s domains'))


def replay(rep):
    return run_case(rep['tier'], rep['seed'], rep['index'], rep.get('spec'), rep.get('tree'))


def finalize(tot, tier, seed):
    inc = []
    for k in ('replace_edge_calls', 'linearisations', 'derive_calls', 'wrong_type_attempts', 'iso_checks'):
        if tot['obs'].get(k, 0) == 0:
            inc.append(f'{k} never observed')
    for f in ('all-linearisations', 'rule-used-twice'):
        if tot['features'].get(f, 0) == 0:
            inc.append(f'feature {f} never generated')
    return dict(exhaustive=False, exhaustive_bound='all linearisations of each derivation with <= 720 orders; derivations themselves are sampled'), inc


ALLOW_DECLINE = {}
