"""C08 — the four semirings obey the semiring laws on their whole carrier.

Monitors: (i) every operation against a reference semiring written from the definitions
(oracle/semiring_ref: element-wise torch + mpmath), bitwise for exact operations, within a few
ulps for transcendental ones; (ii) law instances (both sides computed by the library) on all
triples from boundary-heavy pools and on random triples; an instance is judged only when the
reference's two sides agree (float non-associativity under overflow/underflow is not a defect);
(iii) add/mul/sub on PatternedTensor operands of random well-typed patterns vs dense operands."""
import itertools, math
from . import common as C
from ..core import env
from ..gen import fggspec as G
from ..gen import types_patterns as TP
from ..oracle import semiring_ref as SR
from ..oracle import axis_ref as A

PROPERTY = 'C08'
RULE = ('law cases: all triples from the boundary pools of each (semiring, dtype) (exhaustive over the pools) and random triples '
        '(uniform / log-uniform / pool mixtures), evaluated vectorised; op cases: every pool value/pair against the mpmath/Fraction '
        'reference; representation cases: add/mul/sub on random well-typed patterned operands vs the same on dense operands. '
        'evaluations = law/op instances judged; non-trivial = instance with all operands different from the semiring zero/one; '
        'distinct = distinct operand tuples')
ASSUMPTIONS = ['law instance judged only when the IEEE reference evaluation of its two sides agrees (else counted as float-nonassociative)',
               'transcendental ops: <= 8 ulp against the torch reference, <= 4 ulp against mpmath on the pools',
               'sub(x,y) only for y <= x']
SEMI = ('real', 'log', 'viterbi', 'bool')
DTYPES = ('float64', 'float32')


def plan(tier, seed):
    if tier == 'quick':
        return dict(n=14 + 42 + 300, budget_s=60, case_timeout=120)
    return dict(n=14 + 2000 + 90000, budget_s=840, case_timeout=120)


def agree(a, b, dt):
    import torch
    if a.dtype == torch.bool:
        return a == b
    u = SR.ulps(a, b)
    rel = 1e-12 if dt == 'float64' else 2e-5
    diff = (a.to(torch.float64) - b.to(torch.float64)).abs()
    diff = torch.where(torch.isnan(diff), torch.where(a == b, torch.zeros_like(diff), torch.full_like(diff, math.inf)), diff)
    return (u <= 64) | (diff <= rel * torch.maximum(a.to(torch.float64).abs(), torch.ones_like(diff)))


def tens(vals, dtype):
    import torch
    return torch.tensor(vals, dtype=dtype)


def first_bad(mask, *ops):
    i = int((~mask).nonzero()[0])
    return i, [o.reshape(-1)[i].item() if hasattr(o, 'reshape') else o for o in ops]


def laws(fggs, S, R, sname, dt, X, Y, Z, viols, obs, ctx):
    """all law instances on the operand tensors X, Y, Z (1-D, same length)"""
    import torch
    zero = torch.full_like(X, R.zero) if X.dtype != torch.bool else torch.zeros_like(X)
    one = torch.full_like(X, R.one) if X.dtype != torch.bool else torch.ones_like(X)
    N = X.numel()

    def judge(name, lhs, rhs, rl, rr, operands, exact=False):
        ok = (lhs == rhs) | (torch.isnan(lhs) & torch.isnan(rhs)) if (exact or lhs.dtype == torch.bool) else agree(lhs, rhs, dt)
        if not exact and lhs.dtype != torch.bool:
            refok = agree(rl, rr, dt)
            obs['law_instances_skipped_nonassociative_float'] += int((~refok).sum())
            ok = ok | ~refok
            # a side must also agree with its reference evaluation
            for side, ref in ((lhs, rl), (rhs, rr)):
                bad = ~agree(side, ref, dt) & refok
                if bad.any():
                    i, ops = first_bad(~bad, *operands, side, ref)
                    viols.append(C.viol(f'law-side-vs-reference:{sname}:{name}', f'{name}: operands/side/reference = {ops}', context=ctx))
        obs['law_instances'] += N
        if not ok.all():
            i, ops = first_bad(ok, *operands, lhs, rhs)
            viols.append(C.viol(f'law:{sname}:{name}', f'{name} fails at operands {ops[:-2]}: lhs={ops[-2]!r} rhs={ops[-1]!r}', context=ctx))

    a, m = S.add, S.mul
    ra, rm = R.add, R.mul
    judge('add-commutative', a(X, Y), a(Y, X), ra(X, Y), ra(Y, X), (X, Y))
    judge('add-associative', a(a(X, Y), Z), a(X, a(Y, Z)), ra(ra(X, Y), Z), ra(X, ra(Y, Z)), (X, Y, Z))
    judge('add-identity', a(X, zero), X, None, None, (X,), exact=True)
    judge('add-identity-left', a(zero, X), X, None, None, (X,), exact=True)
    judge('mul-commutative', m(X, Y), m(Y, X), rm(X, Y), rm(Y, X), (X, Y))
    judge('mul-associative', m(m(X, Y), Z), m(X, m(Y, Z)), rm(rm(X, Y), Z), rm(X, rm(Y, Z)), (X, Y, Z))
    judge('mul-identity', m(X, one), X, None, None, (X,), exact=True)
    judge('mul-identity-left', m(one, X), X, None, None, (X,), exact=True)
    judge('zero-annihilates', m(X, zero), zero, None, None, (X,), exact=True)
    judge('zero-annihilates-left', m(zero, X), zero, None, None, (X,), exact=True)
    judge('distributive', m(X, a(Y, Z)), a(m(X, Y), m(X, Z)), rm(X, ra(Y, Z)), ra(rm(X, Y), rm(X, Z)), (X, Y, Z))
    # op level
    for name, lib, ref in (('add', a(X, Y), ra(X, Y)), ('mul', m(X, Y), rm(X, Y))):
        if X.dtype == torch.bool or sname in ('real', 'viterbi'):
            ok = (lib == ref) | (torch.isnan(lib) & torch.isnan(ref))
        else:
            ok = (SR.ulps(lib, ref) <= 8) | agree(lib, ref, dt) & (name == 'add')
        obs['op_instances'] += N
        if not ok.all():
            i, ops = first_bad(ok, X, Y, lib, ref)
            viols.append(C.viol(f'op:{sname}:{name}', f'{name}({ops[0]!r},{ops[1]!r}) = {ops[2]!r}, reference {ops[3]!r}', context=ctx))
    # star
    lib, ref = S.star(X), R.star(X)
    ok = (lib == ref) if X.dtype == torch.bool or sname == 'viterbi' else ((SR.ulps(lib.to(X.dtype), ref) <= 8) | agree(lib.to(X.dtype), ref, dt))
    obs['op_instances'] += N
    if not ok.all():
        i, ops = first_bad(ok, X, lib, ref)
        what = 'star-of-one' if ops[0] == R.one else 'star'
        viols.append(C.viol(f'op:{sname}:{what}', f'star({ops[0]!r}) = {ops[1]!r}, least solution of y=1+x*y is {ops[2]!r}', context=ctx))
    # sub: add(sub(x,y),y) = x whenever y <= x
    le = R.leq(Y, X)
    if le.any():
        x, y = X[le], Y[le]
        back = a(S.sub(x, y), y)
        ok = (back == x) if x.dtype == torch.bool else agree(back, x, dt)
        obs['op_instances'] += int(le.sum())
        if not ok.all():
            i, ops = first_bad(ok, x, y, back)
            viols.append(C.viol(f'law:{sname}:sub-then-add', f'add(sub({ops[0]!r},{ops[1]!r}),{ops[1]!r}) = {ops[2]!r}', context=ctx))
    # add_ agrees with add
    t = X.clone()
    S.add_(t, Y)
    exp = a(X, Y)
    ok = (t == exp) | (torch.isnan(t) & torch.isnan(exp)) if t.dtype == torch.bool else agree(t, exp, dt)
    if not ok.all():
        i, ops = first_bad(ok, X, Y, t, exp)
        viols.append(C.viol(f'op:{sname}:add_', f'add_({ops[0]!r},{ops[1]!r}) -> {ops[2]!r}, add gives {ops[3]!r}', context=ctx))


def sums(fggs, S, R, sname, dt, M, viols, obs, ctx):
    """S.sum(M, dim) agrees with folded add (M: 2-D)"""
    import torch
    for dim in (0, 1):
        lib = S.sum(M, dim=dim)
        want_shape = tuple(M.shape[:dim] + M.shape[dim + 1:])
        if not isinstance(lib, torch.Tensor) or lib.dtype != M.dtype or tuple(lib.shape) != want_shape:
            viols.append(C.viol(f'op:{sname}:sum:shape-or-dtype', f'sum(dim={dim}) of a {M.dtype} tensor of shape {tuple(M.shape)} returned {getattr(lib, "dtype", type(lib).__name__)} of shape {tuple(getattr(lib, "shape", ()))}', context=ctx))
            continue
        cols = M.unbind(dim)
        acc = cols[0]
        racc = cols[0]
        for c in cols[1:]:
            acc = S.add(acc, c)
            racc = R.add(racc, c)
        ok = (lib == acc) if M.dtype == torch.bool else (agree(lib, acc, dt) | ~agree(acc, racc, dt))
        if M.dtype != torch.bool:
            # sums re-associate: allow K ulps
            diff = (lib.to(torch.float64) - acc.to(torch.float64)).abs()
            ok = ok | (diff <= (1e-10 if dt == 'float64' else 1e-4) * torch.maximum(acc.to(torch.float64).abs(), torch.ones_like(diff)))
        obs['op_instances'] += lib.numel()
        if not ok.all():
            i, ops = first_bad(ok, lib, acc)
            viols.append(C.viol(f'op:{sname}:sum', f'sum(dim={dim}) = {ops[0]!r}, folded add = {ops[1]!r}', context=ctx))


def from_int_checks(fggs, S, R, sname, dt, viols, obs, ctx):
    import torch
    dtype = getattr(torch, dt) if sname != 'bool' else torch.bool
    f = S.from_int
    same = lambda a, b: bool(((a == b) | (torch.isnan(a) & torch.isnan(b)) if a.dtype == torch.bool else agree(a.to(dtype), b.to(dtype), dt)).all())
    if not same(f(0), torch.tensor(R.zero, dtype=dtype)) or f(0).item() != R.zero:
        viols.append(C.viol(f'from_int:{sname}:zero', f'from_int(0) = {f(0).item()!r}', context=ctx))
    if f(1).item() != R.one:
        viols.append(C.viol(f'from_int:{sname}:one', f'from_int(1) = {f(1).item()!r}', context=ctx))
    for m in range(0, 7):
        for n in range(0, 7):
            obs['op_instances'] += 2
            if not same(f(m + n), S.add(f(m), f(n))):
                viols.append(C.viol(f'from_int:{sname}:additive', f'from_int({m}+{n}) = {f(m + n).item()!r} but add(from_int({m}),from_int({n})) = {S.add(f(m), f(n)).item()!r}', context=ctx))
            if not same(f(m * n), S.mul(f(m), f(n))):
                viols.append(C.viol(f'from_int:{sname}:multiplicative', f'from_int({m}*{n}) = {f(m * n).item()!r} but mul = {S.mul(f(m), f(n)).item()!r}', context=ctx))
        if not same(f(m), R.from_int(m)):
            viols.append(C.viol(f'from_int:{sname}:value', f'from_int({m}) = {f(m).item()!r}, reference {R.from_int(m).item()!r}', context=ctx))
        if sname != 'bool' and f(m).dtype != dtype:
            viols.append(C.viol(f'from_int:{sname}:dtype', f'from_int({m}).dtype = {f(m).dtype}', context=ctx))
    t = torch.arange(0, 5)
    vec = f(t)
    exp = torch.stack([R.from_int(int(k)) for k in t])
    if not same(vec, exp):
        viols.append(C.viol(f'from_int:{sname}:tensor-arg', f'from_int(tensor) = {vec.tolist()} expected {exp.tolist()}', context=ctx))


def mp_checks(fggs, S, sname, dt, pool, viols, obs, ctx):
    """op-level against mpmath / Fractions on the pool (scalar)"""
    import torch
    dtype = getattr(torch, dt)
    tol = 4

    def cmp(name, lib, ref, args):
        obs['mp_instances'] += 1
        r = torch.tensor(ref, dtype=dtype)
        l = lib.to(dtype).reshape(())
        if not bool(SR.ulps(l, r) <= tol) and not (abs(l.item() - r.item()) <= 1e-300):
            viols.append(C.viol(f'op-vs-mpmath:{sname}:{name}', f'{name}{args} = {l.item()!r}, exact {r.item()!r}', context=ctx))
    for x in pool:
        X = torch.tensor(x, dtype=dtype)
        x_ = X.item()
        if sname == 'log':
            cmp('star', S.star(X), SR.mp_log_star(x_), (x_,))
            for y in pool:
                Y = torch.tensor(y, dtype=dtype)
                cmp('add', S.add(X, Y), SR.mp_log_add(x_, Y.item()), (x_, Y.item()))
        elif sname == 'real':
            l = S.star(X)
            r = SR.mp_real_star(x_)
            obs['mp_instances'] += 1
            rt = torch.tensor(r, dtype=dtype)
            # 1/(1-x) takes two roundings; near x=1 the subtraction is exact, so a few ulps suffice
            if not bool(SR.ulps(l.to(dtype).reshape(()), rt) <= 4) and not (x_ < 1 and abs(l.item() - rt.item()) <= 4e-16 * abs(rt.item()) * (1 if dt == 'float64' else 1e9)):
                viols.append(C.viol(f'op-vs-mpmath:{sname}:star', f'star({x_!r}) = {l.item()!r}, exact {rt.item()!r}', context=ctx))


def repr_case(fggs, rng, sname, dt, viols, obs, ctx):
    """add/mul/sub on PatternedTensors of random patterns == the same on dense operands"""
    import torch
    I = env.mod('fggs.indices')
    dtype = getattr(torch, dt) if sname != 'bool' else torch.bool
    S = G.make_semiring(fggs, sname, getattr(torch, dt))
    R = SR.Ref(sname, dtype)
    if sname == 'real':
        pool = [0.0, 0.0, 0.5, 1.0, 2.0, 3.5, math.inf, 1e-3]
        dpool = [0.0, 0.0, 1.0, 2.5, math.inf]
    elif sname == 'bool':
        pool = [False, True]
        dpool = [False, False, True]
    else:
        pool = [-math.inf, -math.inf, -2.0, -0.5, 0.0, 1.0, 3.0, math.inf]
        dpool = [-math.inf, -math.inf, 0.0, -1.5, math.inf]
    if rng.random() < 0.2:
        # zero-size summands give well-typed pairs that agree on `before` and differ on `after`
        ts, p1, p2 = TP.gen_pattern_pair_same_before(rng, lambda: rng.choice(pool), lambda: rng.choice(dpool))
        obs['repr_same_before_differs_after'] = obs.get('repr_same_before_differs_after', 0) + int(TP.same_before_differs_after(p1, p2))
    else:
        ts = TP.common_types(rng, depth=2, max_numel=8, max_total=200)
        p1 = TP.gen_pattern(rng, ts, lambda: rng.choice(pool), rng.choice(dpool))
        p2 = TP.gen_pattern(rng, ts, lambda: rng.choice(pool), rng.choice(dpool))
    t1 = TP.realise(I, p1, dtype)
    t2, shared = TP.realise_sharing(I, rng, p2, dtype, t1)
    obs['repr_shared_axes'] = obs.get('repr_shared_axes', 0) + int(shared)
    d1 = torch.tensor(A.densify(p1)[0], dtype=dtype).reshape(A.shape_of(p1))
    d2 = torch.tensor(A.densify(p2)[0], dtype=dtype).reshape(A.shape_of(p2))
    ops = [('add', S.add, R.add), ('mul', S.mul, R.mul)]
    for name, op, rop in ops + [('sub', S.sub, None)]:
        if name == 'sub':
            # precondition y <= x everywhere (including defaults): make x := add(x, y)
            x_pt, x_d = S.add(t1, t2), R.add(d1, d2)
            a_pt, b_pt, a_d, b_d = x_pt, t2, A.densify_pt(x_pt), d2
        else:
            a_pt, b_pt, a_d, b_d = t1, t2, d1, d2
        out = C.call(op, a_pt, b_pt)
        obs['repr_instances'] += 1
        c = dict(ctx, op=name, a=TP.depict(p1), b=TP.depict(p2))
        if not out['ok']:
            viols.append(C.viol(f"repr-exception:{sname}:{name}:{out['exc_type']}:{out.get('where', '')}", f'{name} on PatternedTensors raised {out["exc"]}', context=c, traceback=out['tb'],
                                p1=p1, p2=p2))
            continue
        got = A.densify_pt(out['value'])
        dense = op(a_d.clone(), b_d.clone())
        if dense.dtype == torch.bool:
            ok = torch.equal(got, dense)
        elif sname == 'log' and name in ('add', 'sub'):
            ok = bool(((SR.ulps(got, dense) <= 4) | agree(got, dense, dt)).all())
        else:
            ok = bool(((got == dense) | (torch.isnan(got) & torch.isnan(dense))).all())
        inv = A.check_invariant(out['value'])
        if inv:
            viols.append(C.viol(f'repr-invariant:{sname}:{name}', inv, context=c, p1=p1, p2=p2))
        if not ok:
            bad = (got != dense) & ~(torch.isnan(got) & torch.isnan(dense))
            i = bad.reshape(-1).nonzero()[0].item()
            sig = f'repr:{sname}:{name}'
            g, e = got.reshape(-1)[i].item(), dense.reshape(-1)[i].item()
            if isinstance(e, float) and e == -math.inf and isinstance(g, float) and g < -1e37:
                sig += ':finite-most-negative-instead-of-neginf'
            viols.append(C.viol(sig, f'{name} on patterned operands gives {g!r} where dense operands give {e!r}', context=c, p1=p1, p2=p2))
        if rop is not None and dense.dtype != torch.bool:
            ref = rop(a_d, b_d)
            okr = bool(((SR.ulps(dense, ref) <= 8) | agree(dense, ref, dt)).all())
            if not okr:
                viols.append(C.viol(f'op:{sname}:{name}', f'{name} on dense operands differs from reference', context=c))
    # broadcasting: a 0-dim operand (what PatternedTensor.from_int gives) and one whose dimensions all have size 1
    sv = rng.choice([v for v in pool if v == v])
    scal = torch.tensor(sv, dtype=dtype)
    c0 = I.PatternedTensor(scal.clone(), (), (), R.zero if rng.random() < 0.7 else rng.choice(dpool))
    c1 = I.PatternedTensor(scal.clone(), (), tuple(I.unitAxis for _ in range(d1.ndim)), c0.default)
    for cname, cpt in (('0dim', c0), ('unit-dims', c1)):
        for name, op in (('add', S.add), ('mul', S.mul)):
            for order in ('tc', 'ct'):
                out = C.call(op, *((t1, cpt) if order == 'tc' else (cpt, t1)))
                obs['repr_instances'] += 1
                obs['repr_broadcast'] = obs.get('repr_broadcast', 0) + 1
                c = dict(ctx, op=f'{name}-broadcast-{cname}-{order}', a=TP.depict(p1), scalar=repr(sv))
                if not out['ok']:
                    viols.append(C.viol(f"repr-exception:{sname}:{name}-broadcast:{out['exc_type']}:{out.get('where', '')}", f'{name} with a broadcast {cname} operand raised {out["exc"]}', context=c, traceback=out['tb'], p1=p1))
                    continue
                got = A.densify_pt(out['value'])
                dense = op(d1.clone(), scal.expand(d1.shape).clone()) if order == 'tc' else op(scal.expand(d1.shape).clone(), d1.clone())
                if tuple(got.shape) != tuple(dense.shape):
                    ok = False
                elif dense.dtype == torch.bool:
                    ok = torch.equal(got, dense)
                elif sname == 'log' and name == 'add':
                    ok = bool(((SR.ulps(got, dense) <= 4) | agree(got, dense, dt)).all())
                else:
                    ok = bool(((got == dense) | (torch.isnan(got) & torch.isnan(dense))).all())
                if not ok:
                    viols.append(C.viol(f'repr:{sname}:{name}:broadcast', f'{name} of {TP.depict(p1)} and a broadcast {cname} operand {sv!r}: patterned result {C.short(got.tolist())} differs from dense {C.short(dense.tolist())}', context=c, p1=p1))
    return p1, p2


def run_case(tier, seed, index, spec=None):
    import torch
    fggs = env.setup()
    viols = []
    obs = dict(law_instances=0, law_instances_skipped_nonassociative_float=0, op_instances=0, mp_instances=0, repr_instances=0)
    combos = [(s, d) for s in SEMI for d in DTYPES if not (s == 'bool' and d == 'float32')]
    n_pool = len(combos) * 2       # 14
    rng = G.rng_for(seed, 'C08', tier, index)
    keys = []
    nrand = 42 if tier == 'quick' else 2000
    if index < n_pool:
        sname, dt = combos[index // 2]
        part = index % 2
        cls = 'pool-laws' if part == 0 else 'pool-ops'
        dtype = getattr(torch, dt) if sname != 'bool' else torch.bool
        S = G.make_semiring(fggs, sname, getattr(torch, dt))
        R = SR.Ref(sname, dtype)
        pool = [False, True] if sname == 'bool' else SR.POOLS[sname][dt]
        ctx = dict(semiring=sname, dtype=dt, block=cls)
        if part == 0:
            trip = list(itertools.product(pool, repeat=3))
            X, Y, Z = (tens([t[k] for t in trip], dtype) for k in range(3))
            laws(fggs, S, R, sname, dt, X, Y, Z, viols, obs, ctx)
            keys = [f'{sname}{dt}{i}' for i, t in enumerate(trip) if all(v not in (R.zero, R.one) for v in t)]
            sample = dict(block='all triples of the pool', semiring=sname, dtype=dt, pool=[repr(p) for p in pool])
        else:
            from_int_checks(fggs, S, R, sname, dt, viols, obs, ctx)
            if sname in ('real', 'log'):
                mp_checks(fggs, S, sname, dt, pool, viols, obs, ctx)
            M = tens([[rng.choice(pool) for _ in range(7)] for _ in range(40)], dtype)
            sums(fggs, S, R, sname, dt, M, viols, obs, ctx)
            keys = [f'{sname}{dt}ops{i}' for i in range(len(pool))]
            sample = dict(block='from_int, star/add vs mpmath, sum vs folded add', semiring=sname, dtype=dt)
    elif index < n_pool + nrand:
        cls = 'random-laws'
        sname, dt = combos[index % len(combos)]
        dtype = getattr(torch, dt) if sname != 'bool' else torch.bool
        S = G.make_semiring(fggs, sname, getattr(torch, dt))
        R = SR.Ref(sname, dtype)
        N = 3000
        pool = [False, True] if sname == 'bool' else SR.POOLS[sname][dt]

        def draw():
            r = rng.random()
            if sname == 'bool' or r < 0.2:
                return rng.choice(pool)
            if sname == 'real':
                if r < 0.6:
                    return rng.uniform(0, 4)
                return 10 ** rng.uniform(-320 if dt == 'float64' else -44, 308 if dt == 'float64' else 38)
            if r < 0.6:
                return rng.uniform(-6, 3)
            return rng.choice([-1, 1]) * 10 ** rng.uniform(-17, 3)
        X, Y, Z = (tens([draw() for _ in range(N)], dtype) for _ in range(3))
        ctx = dict(semiring=sname, dtype=dt, block=cls, index=index)
        laws(fggs, S, R, sname, dt, X, Y, Z, viols, obs, ctx)
        M = tens([[draw() for _ in range(rng.randint(2, 12))] for _ in range(1)][0] * 1, dtype).reshape(1, -1)
        M = tens([[draw() for _ in range(9)] for _ in range(30)], dtype)
        sums(fggs, S, R, sname, dt, M, viols, obs, ctx)
        keys = [f'{index}.{i}' for i in range(N)] if sname != 'bool' else []
        sample = dict(block='random triples', semiring=sname, dtype=dt, first=[X[0].item(), Y[0].item(), Z[0].item()])
    else:
        cls = 'representation'
        sname = SEMI[index % 4]
        dt = 'float64' if (index // 4) % 3 else 'float32'
        ctx = dict(semiring=sname, dtype=dt, block=cls, index=index)
        p1 = p2 = None
        for j in range(6):
            p1, p2 = repr_case(fggs, G.rng_for(seed, 'C08r', tier, index, j), sname, dt, viols, obs, ctx)
            keys.append(C.hkey([sname, dt, p1, p2]))
        sample = dict(block='patterned operands', semiring=sname, dtype=dt, a=TP.depict(p1), b=TP.depict(p2))
    evals = obs['law_instances'] + obs['op_instances'] + obs['mp_instances'] + obs['repr_instances']
    return dict(cls=cls, features=[f'{sname}', dt], verdict='violated' if viols else 'held', violations=viols, obs=obs, evals=max(1, evals),
                keys=keys, nontrivial=bool(keys), key=f'{cls}{index}', sample=sample)


def finalize(tot, tier, seed):
    inc = []
    for k in ('law_instances', 'op_instances', 'mp_instances', 'repr_instances'):
        if tot['obs'].get(k, 0) == 0:
            inc.append(f'monitor {k} never exercised')
    for c in ('pool-laws', 'pool-ops', 'random-laws', 'representation'):
        if tot['classes'].get(c, 0) == 0:
            inc.append(f'class {c} not run')
    ex = not tot['cut_short'] and tot['classes'].get('pool-laws', 0) == 7
    return dict(exhaustive=False, pools_exhausted=bool(ex), exhaustive_bound='all triples of each boundary pool (15^3 real, 13^3 log/viterbi, 2^3 bool) per dtype; the carrier itself is sampled'), inc
