"""C04 — viterbi returns a well-formed derivation of maximal weight.

Boundary monitor on fggs.viterbi and FGGDerivation.derive(); oracles: independent
well-formedness checker, weight recomputed from the tree and from derive()'s factor graph with
the spec's own weight tables, exact max-plus optimum by dense Kleene iteration (stationary)."""
import itertools, math, sys
from . import common as C
from ..core import env
from ..gen import fggspec as G
from ..oracle import sumproduct_ref as R
from ..monitor.hooks import Hooks

PROPERTY = 'C04'
RULE = ('case = one generated FGG spec with log-weights in [-inf, finite] and no positive cycle (classes nonrec / linear / nonlinear / mixed / '
        'unit-cycle ties; strata: rule whose attached nodes are all external, edgeless internal/external nodes, size-1 domains, start arity > 0); '
        'viterbi is called for every start assignment whose optimum is finite; evaluations = specs; non-trivial = some derivation returned has '
        '>= 2 rule instances and the optimum is attained by a rule with a summed-out node; distinct = spec hashes')
ASSUMPTIONS = ['log-weights <= 0 on a 0.25 grid (default tol) or 3-decimal (tol=1e-12); +inf excluded (maximum would not be finite)',
               'rules have pairwise distinct external nodes', 'ties: any optimal derivation accepted']
CLASSES = ('nonrec', 'linear', 'nonlinear', 'mixed', 'unitcycle')


def plan(tier, seed):
    return dict(n=1200 if tier == 'quick' else 100000, budget_s=75 if tier == 'quick' else 840, case_timeout=120)


def gen(tier, seed, index):
    rng = G.rng_for(seed, 'C04', tier, index)
    cls = CLASSES[index % len(CLASSES)]
    pool = ['edgeless-internal', 'edgeless-ext', 'size1-domain', 'start-arity', 'no-edges-rule', 'all-ext-rule', 'edge-twice', 'zero-weight',
            'nt-without-rules', 'nullary', 'ext-also-attached-twice', 'plain', 'start-arity']
    forced = [pool[(index // 5) % len(pool)]]
    grid = (index // 65) % 2 == 0
    if cls == 'unitcycle' and (index // 5) % 2 == 1:
        # zero-weight cycles inside the factor tables that tie with the best acyclic derivation
        spec = G.gen_zero_cycle_spec(rng)
        return spec, dict(cls=cls, forced=['zero-weight-cycle-in-factor'], grid=True)
    if index % 20 == 13:
        # a cyclic component entered through one member while another member is the only user of an outside
        # nonterminal that carries the best derivation
        return G.gen_private_dependency_spec(rng), dict(cls=cls, forced=['scc-member-with-private-dependency'], grid=False)
    if forced == ['plain'] and cls == 'nonrec':
        spec = G.gen_broadcast_spec(rng, wdomain='log')
        return spec, dict(cls=cls, forced=['stride0-nonterminals'], grid=False)
    spec = G.gen_spec(rng, cls, [f for f in forced if f != 'all-ext-rule'], wdomain='log', grid=grid, allow_inf=False, max_nodes=5 if tier == 'thorough' else 4)
    if 'all-ext-rule' in forced:
        # a rule with nothing to maximise over: every node is external
        cands = [n for n, t in spec['nonterminals'].items() if t]
        if cands:
            n = rng.choice(cands)
            typ = spec['nonterminals'][n]
            t = f'f{len(spec["terminals"])}'
            spec['terminals'][t] = list(typ)
            spec['weights'][t] = G.nested(G.shape_of(spec, typ), lambda: rng.choice([-1.0, -0.5, -0.25, 0.0]))
            spec['rules'].append(dict(lhs=n, nodes=list(typ), ext=list(range(len(typ))), edges=[[t, list(range(len(typ)))]]))
    return spec, dict(cls=cls, forced=forced, grid=grid)


def check_derivation(fggs, fgg, spec, info, d, nt_name, ext_asst, depth=0):
    """returns (list of defects, weight, number of rule instances); ext_asst: expected values of the
    rule's external nodes (tuple) or None"""
    bad = []
    if depth > 400:
        return ['derivation deeper than 400 rule instances'], -math.inf, 0
    rules = list(fgg.rules(info['el'][nt_name]))
    rule = d.rule
    if not any(rule is r for r in rules):
        if any(rule is r for r in fgg.all_rules()):
            bad.append(f'rule with lhs {rule.lhs.name} used to rewrite {nt_name}')
        else:
            bad.append('rule is not a rule of the grammar')
        return bad, -math.inf, 0
    ri = next(k for k, r in info['rules'].items() if r is rule)
    srule = spec['rules'][ri]
    nodes = info['nodes'][ri]          # spec node index -> Node
    asst = d.asst
    vals = {}
    for vi, node in nodes.items():
        if node not in asst:
            bad.append(f'node {vi} of rule {ri} ({srule["lhs"]}) has no value')
            continue
        x = asst[node]
        size = spec['domains'][srule['nodes'][vi]]
        if isinstance(x, bool) or not isinstance(x, int) or not (0 <= x < size):
            bad.append(f'node {vi} of rule {ri} has value {x!r} outside its domain of size {size}')
            continue
        vals[vi] = x
    extra = [n for n in asst if n not in nodes.values()]
    if extra:
        bad.append(f'assignment mentions {len(extra)} nodes that are not in the rule')
    if bad:
        return bad, -math.inf, 1
    if ext_asst is not None:
        got = tuple(vals[v] for v in srule['ext'])
        if got != tuple(ext_asst):
            bad.append(f'external nodes of rule {ri} have values {got}, parent says {tuple(ext_asst)}')
    w = 0.0
    count = 1
    nt_edges = {}
    for ei, (lab, att) in enumerate(srule['edges']):
        e = info['edges'][ri, ei]
        if lab in spec['terminals']:
            x = G.get_nested(G.weights_in(spec, lab, 'viterbi'), [vals[v] for v in att])
            w = w + x if not (w == -math.inf or x == -math.inf) else -math.inf
        else:
            nt_edges[e] = (lab, att)
    ch = d.children
    for e in ch:
        if e not in nt_edges:
            bad.append('child attached to an edge that is not a nonterminal edge of the rule')
    for e, (lab, att) in nt_edges.items():
        if e not in ch:
            bad.append(f'nonterminal edge {lab} of rule {ri} has no child')
            continue
        b2, w2, c2 = check_derivation(fggs, fgg, spec, info, ch[e], lab, tuple(vals[v] for v in att), depth + 1)
        bad.extend(b2)
        count += c2
        w = w + w2 if not (w == -math.inf or w2 == -math.inf) else -math.inf
    return bad, w, count


def derive_weight(spec, graph, asst):
    """total log-weight of derive()'s factor graph under its assignment; (defects, weight)"""
    bad = []
    w = 0.0
    for n in graph.nodes():
        if n not in asst:
            bad.append('derive(): assignment is not total')
            return bad, -math.inf
    for e in graph.edges():
        if e.label.is_nonterminal:
            bad.append(f'derive(): nonterminal edge {e.label.name} left in the graph')
            continue
        x = G.get_nested(G.weights_in(spec, e.label.name, 'viterbi'), [asst[n] for n in e.nodes])
        w = w + x if not (w == -math.inf or x == -math.inf) else -math.inf
    return bad, w


def check_spec(spec, meta, tier, index=0):
    import torch
    import random as _random
    rule_order = list(range(len(spec['rules'])))
    _random.Random(f'C04order:{index}').shuffle(rule_order)
    if index % 2 == 0:
        rule_order = None
    fggs = env.setup()
    IND = env.mod('fggs.indices')
    VIT = env.mod('fggs.viterbi')
    viols = []
    obs = dict(viterbi_calls=0, derivations_checked=0, rule_instances=0, ties_possible=0, einsum_sumout_0=0, einsum_sumout_1=0, einsum_sumout_ge2=0)
    ref, rinfo = R.reference_tables(spec, 'viterbi')
    if ref is None:
        return dict(verdict='declined', violations=[], obs=obs, nontrivial=False)
    start = spec['start']
    shape = G.shape_of(spec, spec['nonterminals'][start])
    exp = torch.tensor(ref[start], dtype=torch.float64).reshape(shape)
    if torch.isposinf(exp).any():
        return dict(verdict='declined', violations=[], obs=obs, nontrivial=False)
    tol = 1e-6 if meta.get('grid') else 1e-12
    nontrivial = False
    with Hooks() as h:
        def on_call(a, k):
            tensors, inputs, output = a[0], a[1], a[2]
            idx = {i for inp in inputs for i in inp}
            n = len(idx - set(output))
            obs['einsum_sumout_' + ('0' if n == 0 else '1' if n == 1 else 'ge2')] += 1
        h.spy(VIT, 'log_viterbi_einsum_forward', on_call=on_call, key='log_viterbi_einsum_forward')
        late = index % 3 == 1        # start symbol set through the setter after another nonterminal was registered first
        fgg, info = G.build_fgg(fggs, spec, 'viterbi', torch.float64, start_via_setter=late, rule_order=rule_order)
        sr = fggs.ViterbiSemiring(dtype=torch.float64)
        out = C.call(lambda: fggs.sum_product(fgg, semiring=sr, method='fixed-point', tol=tol, kmax=5000).to_dense())
        spv = out['value'] if out['ok'] else None
        if out['ok']:
            msg = C.close_tensor(spv, exp, 'float64', rtol=1e-9, atol=1e-9)
            if msg:
                viols.append(C.viol('viterbi-semiring-sum_product-differs', msg))
        assts = list(itertools.product(*[range(s) for s in shape]))
        old = sys.getrecursionlimit()
        for asst in assts[:12]:
            best = exp[asst].item() if shape else exp.item()
            if best == -math.inf:
                continue
            fgg, info = G.build_fgg(fggs, spec, 'viterbi', torch.float64, start_via_setter=late, rule_order=rule_order)
            sys.setrecursionlimit(3000)
            try:
                out = C.call(fggs.viterbi, fgg, tuple(asst), semiring=sr, tol=tol, kmax=5000)
            finally:
                sys.setrecursionlimit(old)
            obs['viterbi_calls'] += 1
            ctx = dict(start_assignment=list(asst), optimum=best, cls=meta['cls'])
            if not out['ok']:
                feat = G.features_of(spec)
                where = out.get('where', '')
                sig = f"viterbi-exception:{out['exc_type']}:{where}"
                if out['exc_type'] == 'RecursionError':
                    sig = 'viterbi-unbounded-recursion' + (':unit-cycle-tie' if meta['cls'] == 'unitcycle' or 'recursive' in feat else '')
                viols.append(C.viol(sig, f'viterbi raised {out["exc"]}', context=ctx, traceback=out['tb']))
                continue
            d = out['value']
            try:
                bad, w, count = check_derivation(fggs, fgg, spec, info, d, start, tuple(asst))
            except RecursionError:
                bad, w, count = ['derivation is cyclic / unboundedly deep'], -math.inf, 0
            obs['derivations_checked'] += 1
            obs['rule_instances'] += count
            if bad:
                kind = ('no-value' if any('has no value' in b for b in bad) else 'outside-domain' if any('outside its domain' in b for b in bad)
                        else 'child' if any('child' in b for b in bad) else 'external-mismatch' if any('external nodes' in b for b in bad) else 'rule')
                viols.append(C.viol(f'derivation-malformed:{kind}', '; '.join(bad[:4]), context=ctx))
                continue
            if count >= 2 and any(len(r['ext']) < len(r['nodes']) for r in spec['rules']):
                nontrivial = True
            if abs(w - best) > 1e-9 * max(1.0, abs(best)):
                viols.append(C.viol('derivation-not-optimal', f'derivation weight {w!r} but the maximum over all derivations is {best!r}', context=ctx))
                continue
            o2 = C.call(d.derive)
            if not o2['ok']:
                viols.append(C.viol(f"derive-exception:{o2['exc_type']}:{o2.get('where', '')}", f'derive() raised {o2["exc"]}', context=ctx, traceback=o2['tb']))
                continue
            graph, gasst = o2['value']
            b3, w3 = derive_weight(spec, graph, gasst)
            if b3:
                viols.append(C.viol('derive-malformed', '; '.join(b3[:3]), context=ctx))
            elif abs(w3 - best) > 1e-9 * max(1.0, abs(best)):
                viols.append(C.viol('derive-weight-differs', f'derive() graph has weight {w3!r}, optimum {best!r}, tree weight {w!r}', context=ctx))
            if False:  # derive() does not promise to mark the start symbol's nodes as external
                viols.append(C.viol('derive-externals', f'derive(): external nodes {[n.label.name for n in graph.ext]} with values {[gasst.get(n) for n in graph.ext]}, expected start assignment {asst}', context=ctx))
            if spv is not None:
                s = spv[asst].item() if shape else spv.item()
                if abs(s - w) > 1e-9 * max(1.0, abs(w)):
                    viols.append(C.viol('viterbi-vs-semiring', f'derivation weight {w!r} != Viterbi-semiring sum_product {s!r}', context=ctx))
        hooks = dict(h.count)
    return dict(verdict='violated' if viols else 'held', violations=viols, obs=obs, nontrivial=nontrivial, hooks=hooks)


def run_case(tier, seed, index, spec=None, meta=None):
    if spec is None:
        spec, meta = gen(tier, seed, index)
    res = check_spec(spec, meta, tier, index)
    feats = sorted(G.features_of(spec)) + [f for f in meta['forced'] if f in ('all-ext-rule', 'stride0-nonterminals', 'zero-weight-cycle-in-factor', 'scc-member-with-private-dependency')] + (['start-set-late'] if index % 3 == 1 else [])
    res.update(cls=meta['cls'], features=feats, key=G.spec_key(spec), sample=dict(spec=G.describe(spec), meta=meta))
    for v in res['violations']:
        v['spec'] = spec
        v['meta'] = meta
    return res


def replay(rep):
    if 'spec' in rep:
        return run_case(rep['tier'], rep['seed'], rep['index'], rep['spec'], rep['meta'])
    return run_case(rep['tier'], rep['seed'], rep['index'])


def finalize(tot, tier, seed):
    inc = []
    if tot['hooks'].get('log_viterbi_einsum_forward', 0) == 0:
        inc.append('hook log_viterbi_einsum_forward never reached')
    for k in ('einsum_sumout_0', 'einsum_sumout_1', 'einsum_sumout_ge2', 'derivations_checked'):
        if tot['obs'].get(k, 0) == 0:
            inc.append(f'{k} never observed')
    for c in CLASSES:
        if tot['classes'].get(c, 0) == 0:
            inc.append(f'class {c} not run')
    for f in ('zero-weight-cycle-in-factor', 'all-ext-rule', 'edgeless-internal', 'edgeless-ext', 'size1-domain', 'start-arity'):
        if tot['features'].get(f, 0) == 0:
            inc.append(f'feature {f} never generated')
    return {}, inc
