"""C19 — strongly connected components are correct and dependency-ordered.

Monitors: (i) boundary monitor on fggs.utils.scc over digraphs (exhaustive for <= 3 vertices in
every insertion order and <= 4 vertices in canonical order; random beyond), oracle = reachability
closure; (ii) nonterminal_graph vs the relation read off the spec; (iii) trace of
SumProduct.apply_to_patterned_tensors: no nonterminal is solved before one it depends on, and
every nonterminal receives a value."""
import itertools, random
from . import common as C
from ..core import env
from ..gen import fggspec as G
from ..oracle import scc_ref
from ..monitor.hooks import Hooks

PROPERTY = 'C19'
RULE = ('digraph cases: every digraph with self-loops on <=3 vertices in every vertex/neighbour insertion order and on 4 vertices in '
        'canonical order (exhaustive), random digraphs up to 12 vertices with isolated vertices beyond; grammar cases: generated FGG specs '
        'of all recursion classes. evaluations = graphs/grammars judged; non-trivial = digraph with >=3 vertices and >=1 edge between '
        'distinct vertices, or grammar with >=2 nonterminals; distinct = distinct (graph, presentation) / spec hashes')
ASSUMPTIONS = ['graphs given as adjacency mappings whose neighbour sets only mention vertices of the graph']

CH_A = 24       # chunks of the <=3-vertex exhaustive block
CH_B = 64       # chunks of the 4-vertex canonical block


def plan(tier, seed):
    if tier == 'quick':
        return dict(n=CH_A + CH_B + 120 + 150, budget_s=60, case_timeout=120)
    return dict(n=CH_A + CH_B + 24 * 16 + 8000 + 15000, budget_s=840, case_timeout=300)


def all_presentations_upto3():
    """yield (vertex order, {v: neighbour order}) for every digraph on <=3 vertices, all insertion orders"""
    for n in range(0, 4):
        vs = list(range(n))
        subsets = []
        for k in range(n + 1):
            subsets.extend(itertools.combinations(vs, k))
        neigh_perms = [list(itertools.permutations(s)) for s in subsets]
        allp = [p for ps in neigh_perms for p in ps]
        for nbrs in itertools.product(allp, repeat=n):
            for order in itertools.permutations(vs):
                yield order, nbrs


def mk(order, nbrs, names=None):
    nm = (lambda v: v) if names is None else (lambda v: names[v])
    return {nm(v): {nm(w): None for w in nbrs[v]} for v in order}


def judge_graph(fggs_utils, g, viols, ctx):
    snap = {u: list(g[u]) for u in g}
    out = C.call(fggs_utils.scc, g)
    if not out['ok']:
        viols.append(C.viol(f"scc-exception:{out['exc_type']}", f"scc raised {out['exc']}", graph=snap, context=ctx, traceback=out['tb']))
        return
    comps = out['value']
    bad = scc_ref.judge(snap, [list(c) for c in comps])
    if {u: list(g[u]) for u in g} != snap:
        bad.append('scc mutated its argument')
    if bad:
        kind = 'order' if any('later component' in b for b in bad) and len(bad) == 1 else 'partition'
        viols.append(C.viol(f'scc-{kind}', '; '.join(bad[:3]), graph=snap, observed=[list(map(str, c)) for c in comps], context=ctx))


def run_case(tier, seed, index, spec=None):
    fggs = env.setup()
    U = env.mod('fggs.utils')
    viols, keys = [], []
    evals = 0
    nb = CH_A + CH_B
    quick_rand = 120 if tier == 'quick' else 8000
    perm4 = 0 if tier == 'quick' else 24 * 16
    if index < CH_A:
        cls = 'exhaustive<=3-all-orders'
        for j, (order, nbrs) in enumerate(all_presentations_upto3()):
            if j % CH_A != index:
                continue
            g = mk(order, nbrs)
            judge_graph(U, g, viols, dict(block='A', j=j))
            evals += 1
            if len(order) >= 3 and any(w != v for v in order for w in nbrs[v]):
                keys.append(f'A{j}')
        sample = dict(block='all digraphs on <=3 vertices, every insertion order', chunk=index, example={str(v): list(nbrs[v]) for v in order})
    elif index < nb:
        cls = 'exhaustive-4-canonical'
        c = index - CH_A
        per = 65536 // CH_B
        for code in range(c * per, (c + 1) * per):
            nbrs = [[w for w in range(4) if code >> (4 * v + w) & 1] for v in range(4)]
            g = mk(range(4), nbrs)
            judge_graph(U, g, viols, dict(block='B', code=code))
            evals += 1
            if any(w != v for v in range(4) for w in nbrs[v]):
                keys.append(f'B{code}')
        sample = dict(block='all digraphs on 4 vertices, canonical order', codes=[c * per, (c + 1) * per - 1])
    elif index < nb + perm4:
        cls = 'exhaustive-4-vertex-orders'
        k = index - nb
        order = list(itertools.permutations(range(4)))[k // 16]
        part = k % 16
        rng = G.rng_for(seed, 'C19p', index)
        for code in range(part * 4096, (part + 1) * 4096):
            nbrs = [[w for w in range(4) if code >> (4 * v + w) & 1] for v in range(4)]
            for nb_ in nbrs:
                rng.shuffle(nb_)
            g = mk(order, nbrs)
            judge_graph(U, g, viols, dict(block='P', code=code, order=order))
            evals += 1
            keys.append(f'P{k // 16}.{code}')
        sample = dict(block='all digraphs on 4 vertices, vertex order', order=order)
    elif index < nb + perm4 + quick_rand:
        cls = 'random-digraphs'
        rng = G.rng_for(seed, 'C19r', tier, index)
        for j in range(250):
            n = rng.randint(3, 12)
            p = rng.choice([0.08, 0.15, 0.25, 0.4])
            names = [f'v{i}' if rng.random() < 0.5 else i for i in range(n)]
            if rng.random() < 0.3:
                names = [(x, 'n') for x in names]
            order = list(range(n))
            rng.shuffle(order)
            iso = set(rng.sample(range(n), rng.randint(0, 2)))
            nbrs = []
            for v in range(n):
                ws = [w for w in range(n) if rng.random() < p and w not in iso] if v not in iso else []
                rng.shuffle(ws)
                nbrs.append(ws)
            g = mk(order, nbrs, names)
            judge_graph(U, g, viols, dict(block='R', index=index, j=j))
            evals += 1
            keys.append(C.hkey([order, nbrs]))
        sample = dict(block='random digraph', n=n, p=p, example={str(names[v]): [str(names[w]) for w in nbrs[v]] for v in order})
    else:
        return grammar_case(tier, seed, index, spec)
    return dict(cls=cls, features=[], verdict='violated' if viols else 'held', evals=evals, keys=keys,
                nontrivial=bool(keys), key=f'{cls}{index}', violations=viols, sample=sample,
                obs=dict(scc_calls=evals))


def grammar_case(tier, seed, index, spec=None):
    import torch
    fggs = env.setup()
    U = env.mod('fggs.utils')
    SP = env.mod('fggs.sum_product')
    rng = G.rng_for(seed, 'C19g', tier, index)
    cls = G.CLASSES[index % len(G.CLASSES)]
    if spec is None:
        forced = [rng.choice(G.FORCED), rng.choice(['nt-without-rules', 'unreachable-nt', 'plain'])]
        spec = (G.gen_private_dependency_spec(rng, wdomain='real') if index % 7 == 3 else
                G.gen_sibling_dependency_spec(rng) if index % 7 == 5 else G.gen_spec(rng, cls, forced, allow_inf=False))
        if index % 3 == 1:
            # a nonterminal that is only declared: no rule, on no right-hand side
            lab = rng.choice(sorted(spec['domains']))
            spec['nonterminals']['N_never'] = [lab] if rng.random() < 0.5 else []
        if index % 20 == 7:
            # the start symbol itself has no rules (its value is zero), or the grammar has no rules at all
            if rng.random() < 0.5:
                spec['rules'] = [r for r in spec['rules'] if r['lhs'] != spec['start']]
            else:
                spec['rules'] = []
    viols = []
    opts = dict(explicit_ids=rng.random() < 0.5)
    order = list(range(len(spec['rules'])))
    rng.shuffle(order)
    ghost = G.rng_for(seed, 'C19ghost', tier, index) if index % 2 else None
    fgg, info = G.build_fgg(fggs, spec, 'real', torch.float64, rule_order=order, nt_decl_first=rng.random() < 0.5, ghost_rng=ghost, **opts)
    # (ii) nonterminal_graph
    out = C.call(U.nonterminal_graph, fgg)
    want = G.nt_graph(spec)
    if not out['ok']:
        viols.append(C.viol(f"ntgraph-exception:{out['exc_type']}", out['exc'], traceback=out['tb']))
    else:
        got = {k.name: sorted(x.name for x in v) for k, v in out['value'].items()}
        if got != {k: sorted(v) for k, v in want.items()}:
            viols.append(C.viol('ntgraph-relation', f'nonterminal_graph={got} expected={ {k: sorted(v) for k, v in want.items()} }'))
        if out['ok']:
            o2 = C.call(U.scc, out['value'])
            if o2['ok']:
                bad = scc_ref.judge({k: list(v) for k, v in want.items()}, [[x.name for x in c] for c in o2['value']])
                if bad:
                    viols.append(C.viol('scc-on-grammar', '; '.join(bad[:3])))
    # (iii) solve-order trace
    trace = []
    nsccs = 0

    def order_check(fgg2, spec_, S, tag=''):
        """sum_products on fgg2 under the hook: every nonterminal of spec_ gets a value, is solved once, after its dependencies"""
        want_ = G.nt_graph(spec_)
        trace.clear()
        out = C.call(lambda: fggs.sum_products(fgg2, semiring=G.make_semiring(fggs, S, torch.float64), kmax=3, tol=1e-3))
        if not out['ok']:
            viols.append(C.viol(f"sum_products-exception{tag}:{out['exc_type']}:{out.get('where', '')}", out['exc'], traceback=out['tb']))
            return
        keys = {k.name for k in out['value']}
        if S == 'real' and not tag:
            # every nonterminal receives a value, the start symbol in particular (zero when it has no rules)
            ntrace = len(trace)
            oz = C.call(lambda: fggs.sum_product(fgg2, semiring=G.make_semiring(fggs, S, torch.float64), kmax=3, tol=1e-3))
            del trace[ntrace:]          # the order check below is about the sum_products call
            if not oz['ok']:
                viols.append(C.viol(f"sum_product-exception:{oz['exc_type']}:{oz.get('where', '')}", oz['exc'], traceback=oz['tb']))
            elif not any(r['lhs'] == spec_['start'] for r in spec_['rules']) and bool((oz['value'].to_dense() != 0).any()):
                viols.append(C.viol('start-without-rules-nonzero', f'start symbol has no rules but sum_product = {oz["value"].to_dense().tolist()}'))
        missing = set(spec_['nonterminals']) - keys
        if missing:
            viols.append(C.viol('nonterminal-without-value' + tag, f'sum_products lacks {sorted(missing)}'))
        solved = set()
        dep = G.reach(want_)
        for ins, outs, method in trace:
            for n in outs:
                if n in solved:
                    viols.append(C.viol('solved-twice' + tag, f'{n} solved twice; trace={trace}'))
            for n in outs:
                # members of one solver call may depend on each other only mutually (one strongly connected component):
                # a nonterminal solved in the same step as one it depends on one-way is not computed "after" it
                oneway = [m for m in dep[n] if m in outs and m != n and n not in dep[m]]
                if oneway:
                    viols.append(C.viol('solved-together-with-one-way-dependency' + tag, f'{n} is solved in the same call as {oneway}, which it depends on but which do not depend on it; trace={trace}'))
            for n in outs:
                need = {m for m in dep[n] if m not in outs}
                if not need <= solved:
                    viols.append(C.viol('solved-before-dependency' + tag, f'{outs} solved before {sorted(need - solved)}; trace={trace}'))
            for m in ins:
                if m in spec_['nonterminals'] and m not in solved:
                    viols.append(C.viol('input-not-yet-solved' + tag, f'{m} used as input before being solved'))
            solved.update(outs)
        if solved != set(spec_['nonterminals']):
            viols.append(C.viol('nonterminal-never-solved' + tag, f'never solved: {sorted(set(spec_["nonterminals"]) - solved)}'))

    edited = False
    with Hooks() as h:
        def on_call(a, k):
            # apply_to_patterned_tensors(fgg, opts, in_labels, out_labels, *in_values)
            trace.append(([l.name for l in a[2]], [l.name for l in a[3]], a[1].get('method')))
        h.spy(SP.SumProduct, 'apply_to_patterned_tensors', on_call=on_call, key='apply_to_patterned_tensors', static=True)
        for S in ('real', 'bool'):
            fgg2, info2 = G.build_fgg(fggs, spec, S, torch.float64, rule_order=order, ghost_rng=G.rng_for(seed, 'C19ghost', tier, index) if index % 2 else None, **opts)
            order_check(fgg2, spec, S)
            nsccs += len(trace)
            if S == 'real' and index % 2 == 0 and not viols:
                # (iv) the same grammar object is edited after it has been evaluated -- a nonterminal edge is added to an
                # existing right-hand side (its label is already known to the grammar), or a rule is added -- and evaluated
                # again: graph, components and solve order must be those of the edited grammar
                import copy as _copy
                spec2 = _copy.deepcopy(spec)
                cands = []
                for ri, r in enumerate(spec['rules']):
                    for Y, typ in spec['nonterminals'].items():
                        if all(any(l == lab for l in r['nodes']) for lab in typ):
                            cands.append((ri, Y))
                if cands:
                    ri, Y = rng.choice(cands)
                    r = spec['rules'][ri]
                    att = [rng.choice([v for v, l in enumerate(r['nodes']) if l == lab]) for lab in spec['nonterminals'][Y]]
                    if rng.random() < 0.6:
                        spec2['rules'][ri]['edges'].append([Y, att])
                        info2['rules'][ri].rhs.add_edge(fggs.Edge(info2['el'][Y], [info2['nodes'][ri][v] for v in att]))
                        how = 'edge added to an existing right-hand side'
                    else:
                        newr = dict(lhs=r['lhs'], nodes=list(r['nodes']), ext=list(r['ext']), edges=[[Y, att]])
                        spec2['rules'].append(newr)
                        gnew = fggs.Graph()
                        nn = [fggs.Node(info2['nl'][l]) for l in newr['nodes']]
                        for x in nn:
                            gnew.add_node(x)
                        gnew.add_edge(fggs.Edge(info2['el'][Y], [nn[v] for v in att]))
                        gnew.ext = [nn[v] for v in newr['ext']]
                        fgg2.add_rule(fggs.HRGRule(info2['el'][r['lhs']], gnew))
                        how = 'rule added'
                    edited = True
                    o3 = C.call(U.nonterminal_graph, fgg2)
                    want3 = G.nt_graph(spec2)
                    if not o3['ok']:
                        viols.append(C.viol(f"ntgraph-exception:after-edit:{o3['exc_type']}", o3['exc'], how=how))
                    else:
                        got3 = {k.name: sorted(x.name for x in v) for k, v in o3['value'].items()}
                        if got3 != {k: sorted(v) for k, v in want3.items()}:
                            viols.append(C.viol('ntgraph-relation:after-edit', f'{how}: nonterminal_graph={got3} expected={ {k: sorted(v) for k, v in want3.items()} }'))
                    nv = len(viols)
                    order_check(fgg2, spec2, S, tag=':after-edit')
                    for v in viols[nv:]:
                        v['how'] = how
                        v['edited_spec'] = spec2
        hooks = dict(h.count)
    for v in viols:
        v['spec'] = spec
    nt = len(spec['nonterminals'])
    return dict(cls='grammar-' + cls, features=sorted(G.features_of(spec)) + (['rhs-with-removed-edge-or-unused-label'] if index % 2 else []) + (['nt-never-mentioned'] if 'N_never' in spec['nonterminals'] else [])
                + (['start-without-rules'] if not any(r['lhs'] == spec['start'] for r in spec['rules']) else []) + (['no-rules-at-all'] if not spec['rules'] else []) + (['edited-after-evaluation'] if edited else []), verdict='violated' if viols else 'held',
                key=G.spec_key(spec), nontrivial=nt >= 2, violations=viols, hooks=hooks,
                sample=dict(spec=G.describe(spec)), obs=dict(grammars=1, sccs_traced=nsccs, edited_after_evaluation=int(edited)))


def replay(rep):
    return run_case(rep['tier'], rep['seed'], rep['index'], rep.get('spec') if str(rep.get('cls', '')).startswith('grammar') else None)


def finalize(tot, tier, seed):
    inc = []
    if tot['hooks'].get('apply_to_patterned_tensors', 0) == 0:
        inc.append('hook apply_to_patterned_tensors never reached')
    need = ['exhaustive<=3-all-orders', 'exhaustive-4-canonical', 'random-digraphs'] + ['grammar-' + c for c in G.CLASSES]
    for c in need:
        if tot['classes'].get(c, 0) == 0:
            inc.append(f'class {c} not run')
    ex = not tot['cut_short'] and tot['classes'].get('exhaustive<=3-all-orders', 0) == CH_A and tot['classes'].get('exhaustive-4-canonical', 0) == CH_B
    return dict(exhaustive=bool(ex), exhaustive_bound='all digraphs with self-loops on <=3 vertices in every vertex/neighbour insertion order (24,649 presentations) and on 4 vertices in canonical order (65,536); beyond that: sampled'), inc
