"""C18 — queries are pure: inputs are never mutated, results are reproducible.

Snapshot/version monitor around every step of random query sequences on the *same* objects:
deep snapshot of the grammar through public accessors and, for every weight tensor, bytes, shape,
strides, offset, dtype, default, requires_grad, axis objects **and** Tensor._version (a `.data`
write bypasses the version counter, a write-then-restore leaves the bytes intact: both halves are
needed).  Every query's result is compared with the first result of the same query in the same
sequence (bitwise for tensors).  In-place operations on clones of MultiTensors must not touch
the source."""
import json, math
from . import common as C
from ..core import env
from ..gen import fggspec as G
from ..oracle import axis_ref as A
from ..oracle import iso
from ..monitor import graphinv as GI

PROPERTY = 'C18'
RULE = ('case = one generated FGG (dense, patterned and stride-0 weights; with and without requires_grad) and a random sequence of 12 queries on '
        'the same objects: sum_product under varying method/semiring/tol, sum_products, backward, viterbi, factorize_rule/hrg/fgg, conjoin_hrgs, '
        'fgg_to_json/hrg_to_json; snapshot + _version compared around every step, repeated queries compared with their first result; plus '
        'MultiTensor clone/in-place probes. evaluations = queries monitored; non-trivial = sequence that repeats >= 2 queries on a recursive or '
        'patterned grammar; distinct = (spec, sequence) hashes')
ASSUMPTIONS = ['the labels argument of factorize_rule is exempt (documented to be extended)', '.grad of the weights is not part of the snapshot (accumulating it is what backward() is for)',
               'iteration budgets are small (kmax=30): convergence is irrelevant for purity']

QUERIES = ['sp-real-fp', 'sp-real-newton', 'sp-real-linear', 'sp-log-fp', 'sp-log-newton', 'sp-viterbi', 'sps-real', 'backward-real', 'backward-log',
           'viterbi', 'factorize_rule', 'factorize_hrg', 'factorize_fgg-acb', 'conjoin', 'fgg_to_json', 'hrg_to_json', 'copy']


def plan(tier, seed):
    return dict(n=450 if tier == 'quick' else 10000, budget_s=80 if tier == 'quick' else 800, case_timeout=200)


def tensor_state(t):
    return dict(bytes=t.detach().clone(), shape=tuple(t.shape), stride=tuple(t.stride()), offset=t.storage_offset(), dtype=str(t.dtype),
                requires_grad=t.requires_grad, version=t._version, ptr=t.data_ptr())


def same_tensor_state(a, b):
    import torch
    for k in ('shape', 'stride', 'offset', 'dtype', 'requires_grad', 'version', 'ptr'):
        if a[k] != b[k]:
            return f'{k}: {a[k]} -> {b[k]}'
    x, y = a['bytes'], b['bytes']
    if not bool(((x == y) | (x != x) & (y != y)).all()):
        return 'bytes changed'
    return None


DOMAIN_PROBES = {}      # node label -> the values the domain was built from (set per case)


def snapshot(fgg, extra_graphs=()):
    s = dict(struct=GI.snap(fgg), weights={}, extra=[GI.snap(g) for g in extra_graphs])
    for name, f in fgg.factors.items():
        w = f.weights
        s['weights'][name] = dict(t=tensor_state(w.physical), default=repr(w.default), paxes=tuple(id(k) for k in w.paxes),
                                  vaxes=repr([A.ax_shape_key(e, {}) for e in w.vaxes]), obj=id(w), pobj=id(w.physical))
    # read through the accessors (not through to_json, which is one of the monitored writers), type-sensitively
    s['domains'] = {k: (type(d).__name__, d.size(), repr([(type(v).__name__, v) for v in getattr(d, 'values', [])]),
                        repr([d.numberize(v) if d.contains(v) else None for v in DOMAIN_PROBES.get(k, [])])) for k, d in fgg.domains.items()}
    return s


def diff_snapshot(a, b):
    if a['struct'] != b['struct']:
        ks = [k for k in a['struct'] if a['struct'][k] != b['struct'].get(k)]
        return f'grammar structure changed in {ks}'
    if a['extra'] != b['extra']:
        return 'a graph/grammar passed as second argument changed'
    if a['domains'] != b['domains']:
        return 'domains changed'
    if set(a['weights']) != set(b['weights']):
        return 'set of factors changed'
    for k in a['weights']:
        x, y = a['weights'][k], b['weights'][k]
        for f in ('default', 'paxes', 'vaxes', 'obj', 'pobj'):
            if x[f] != y[f]:
                return f'weights of {k}: {f} changed'
        m = same_tensor_state(x['t'], y['t'])
        if m:
            return f'weight storage of {k}: {m}'
    return None


def result_repr(q, val):
    """comparable representation of a query result"""
    import torch
    if q.startswith('sp-'):
        return ('tensor', val.to_dense())
    if q.startswith('backward'):
        return ('tensors', val)
    if q == 'sps-real':
        return ('tensors', {k.name: v.to_dense() for k, v in val.items()})
    if q == 'viterbi':
        def enc(d):
            return (d.rule.lhs.name, tuple(sorted((str(getattr(n, 'id', n)) if n.persist_id else 'i', v) for n, v in d.asst.items())),
                    tuple(sorted((str(e.id) if e.persist_id else 'i', enc(c)) for e, c in d.children.items())))
        return ('obj', enc(val))
    if q in ('factorize_rule',):
        return ('rules', [(r.lhs.name, iso.from_graph(r.rhs)) for r in val])
    if q in ('factorize_hrg', 'factorize_fgg-acb'):
        return ('rules', [(r.lhs.name, iso.from_graph(r.rhs)) for r in val.all_rules()])
    if q == 'conjoin':
        return ('rules', [(r.lhs.name, iso.from_graph(r.rhs)) for r in val.all_rules()])
    if q in ('fgg_to_json', 'hrg_to_json', 'fz:fgg_to_json', 'fz:hrg_to_json'):
        return ('obj', json.dumps(val, sort_keys=True, default=lambda o: sorted(map(repr, o)) if isinstance(o, (set, frozenset)) else repr(o)))
    if q == 'fz:sum_product':
        return ('tensor', val.to_dense())
    if q == 'copy':
        return ('obj', GI.snap(val))
    return ('obj', repr(val))


def same_result(a, b):
    import torch
    if a[0] != b[0]:
        return False
    if a[0] == 'tensor':
        x, y = a[1], b[1]
        return x.shape == y.shape and bool(((x == y) | (x != x) & (y != y)).all())
    if a[0] == 'tensors':
        if set(a[1]) != set(b[1]):
            return False
        return all(same_result(('tensor', a[1][k]), ('tensor', b[1][k])) for k in a[1])
    if a[0] == 'rules':
        if len(a[1]) != len(b[1]):
            return False
        return all(x[0] == y[0] and iso.isomorphic(x[1], y[1]) for x, y in zip(a[1], b[1]))
    return a[1] == b[1]


def run_case(tier, seed, index, spec=None):
    import torch
    fggs = env.setup()
    M = env.mod('fggs.multi')
    I = env.mod('fggs.indices')
    F = env.mod('fggs.formats')
    rng = G.rng_for(seed, 'C18', tier, index)
    viols = []
    obs = dict(queries=0, snapshots_compared=0, repeated_queries_compared=0, multitensor_probes=0)
    cls = ('nonrec', 'linear', 'nonlinear', 'mixed')[index % 4]
    typed = index % 3 == 1
    grad = index % 2 == 0
    if spec is None:
        spec = G.gen_spec(rng, cls if not typed else rng.choice(['nonrec', 'linear']), [rng.choice(G.FORCED)], allow_inf=False, typed=typed, max_nodes=4)
        G.scale_recursive(spec, 0.3)
        if cls == 'nonrec' and not typed and index % 8 == 4:
            # weights of either sign: outside the nonnegative semiring, but "inputs are left bit-for-bit unchanged" and
            # "same call, same result" do not depend on the sign of the numbers
            for t_ in spec['terminals']:
                spec['weights'][t_] = G.map_nested(spec['weights'][t_], lambda x: -x if rng.random() < 0.4 else x)
        if typed:
            for ps in spec['patterns'].values():
                ps['physical'] = G.map_nested(ps['physical'], lambda x: x * 0.3)
                ps['default'] = ps['default'] * 0.3
    builder = G.pattern_weight_builder(fggs, spec, 'real') if typed else None

    def stride0_builder(t, w, dtype):
        # some dense weights are stride-0 (expanded) views or non-contiguous
        x = torch.tensor(w, dtype=dtype)
        r = rng.random()
        if x.ndim >= 1 and r < 0.25:
            return x[(slice(0, 1),) + (slice(None),) * (x.ndim - 1)].clone().expand(x.shape)
        if x.ndim >= 2 and r < 0.5:
            return x.transpose(0, 1).contiguous().transpose(0, 1)
        return x
    domvals = None
    DOMAIN_PROBES.clear()
    if index % 3 == 2:
        # finite domains whose values are tuples / frozensets (the JSON writers have to convert them -- on a copy)
        domvals = {l: [((l, i) if i % 2 == 0 else frozenset([l, str(i)])) for i in range(sz)] for l, sz in spec['domains'].items()}
        DOMAIN_PROBES.update(domvals)
    fgg, info = G.build_fgg(fggs, spec, 'real', torch.float64, explicit_ids=True, weight_builder=builder or stride0_builder, requires_grad=grad,
                            domain_kind='finite' if domvals else 'range', domain_values=domvals)
    # a grammar the library itself produced: factorize_fgg of a grammar that interprets a terminal no rule uses
    fz = None
    if index % 2 == 1 and spec['domains']:
        try:
            base = fgg.copy()
            lab0 = sorted(spec['domains'])[0]
            el_u = fggs.EdgeLabel('t_unused_c18', [info['nl'][lab0]], is_terminal=True)
            base.add_edge_label(el_u)
            base.new_finite_factor('t_unused_c18', torch.ones(spec['domains'][lab0], dtype=torch.float64))
            fz = fggs.factorize_fgg(base, method='min_fill')
        except Exception:
            fz = None
    # a second grammar over the same node / nonterminal-edge ids for conjoin_hrgs
    g2 = fggs.HRG(fgg.start)
    for r in fgg.all_rules():
        rhs = fggs.Graph()
        for n in r.rhs.nodes():
            rhs.add_node(n)
        rhs.ext = list(r.rhs.ext)
        for e in r.rhs.edges():
            if e.label.is_nonterminal:
                rhs.add_edge(e)
        g2.add_rule(fggs.HRGRule(r.lhs, rhs))
    linear_ok = G.is_linear(spec)
    start_shape = G.shape_of(spec, spec['nonterminals'][spec['start']])
    asst = tuple(rng.randrange(s) for s in start_shape) if all(start_shape) else None
    sr_real, sr_log, sr_vit = fggs.RealSemiring(dtype=torch.float64), fggs.LogSemiring(dtype=torch.float64), fggs.ViterbiSemiring(dtype=torch.float64)
    rule0 = fgg.all_rules()[rng.randrange(len(fgg.all_rules()))] if fgg.all_rules() else None

    def do(q):
        kw = dict(kmax=30, tol=1e-9)
        if q == 'sp-real-fp':
            return fggs.sum_product(fgg, method='fixed-point', semiring=sr_real, **kw)
        if q == 'sp-real-newton':
            return fggs.sum_product(fgg, method='newton', semiring=sr_real, **kw)
        if q == 'sp-real-linear':
            return fggs.sum_product(fgg, method='linear', semiring=sr_real, **kw)
        if q == 'sp-log-fp':
            return fggs.sum_product(fgg, method='fixed-point', semiring=sr_log, **kw)
        if q == 'sp-log-newton':
            return fggs.sum_product(fgg, method='newton', semiring=sr_log, **kw)
        if q == 'sp-viterbi':
            return fggs.sum_product(fgg, method='fixed-point', semiring=sr_vit, **kw)
        if q == 'sps-real':
            return fggs.sum_products(fgg, method='fixed-point', semiring=sr_real, **kw)
        if q in ('backward-real', 'backward-log'):
            z = fggs.sum_product(fgg, method='newton' if rng.random() < 0.0 else 'fixed-point', semiring=sr_real if q == 'backward-real' else sr_log, **kw).to_dense()
            zf = torch.where(torch.isfinite(z), z, torch.zeros_like(z))
            if zf.requires_grad:
                ws = [f.weights.physical for f in fgg.factors.values()]
                gs = torch.autograd.grad(zf.sum(), ws, allow_unused=True)
                return {k: (g_.clone() if g_ is not None else torch.zeros(())) for k, g_ in zip(fgg.factors, gs)}
            return {}
        if q == 'viterbi':
            return fggs.viterbi(fgg, asst, semiring=sr_vit, kmax=30)
        if q == 'factorize_rule':
            return fggs.factorize_rule(rule0, method=rng_method)
        if q == 'factorize_hrg':
            return fggs.factorize_hrg(fgg, method='min_fill')
        if q == 'factorize_fgg-acb':
            return fggs.factorize_fgg(fgg, method='acb')
        if q == 'conjoin':
            return fggs.conjoin_hrgs(g2, g2b)
        if q == 'fgg_to_json':
            return F.fgg_to_json(fgg)
        if q == 'hrg_to_json':
            return F.hrg_to_json(fgg)
        if q == 'copy':
            return fgg.copy()
        if q == 'fz:fgg_to_json':
            return F.fgg_to_json(fz)
        if q == 'fz:hrg_to_json':
            return F.hrg_to_json(fz)
        if q == 'fz:sum_product':
            return fggs.sum_product(fz, method='fixed-point', semiring=sr_real, **kw)
        raise KeyError(q)
    rng_method = rng.choice(['min_fill', 'quickbb', 'acb'])
    # third grammar for conjoin: nonterminal-only copy with other label names is not needed; conjoin g2 with a structural twin
    g2b = fggs.HRG(fggs.EdgeLabel('T', list(fgg.start.type), is_nonterminal=True))
    ren = {l.name: fggs.EdgeLabel('T' if l == fgg.start else l.name + "'", list(l.type), is_nonterminal=True) for l in fgg.nonterminals()}
    for r in g2.all_rules():
        rhs = fggs.Graph()
        for n in r.rhs.nodes():
            rhs.add_node(n)
        rhs.ext = list(r.rhs.ext)
        # edges in an order that is not "nonterminals by id, then terminals": a terminal edge of its own first, the
        # nonterminal edges in reversed order (queries must leave this order alone, too)
        ns_ = list(rhs.nodes())
        if ns_:
            rhs.add_edge(fggs.Edge(fggs.EdgeLabel('g2b_t_' + ns_[0].label.name, [ns_[0].label], is_terminal=True), [ns_[0]], id=f'g2bt{len(g2b.all_rules())}'))
        for e in reversed(list(r.rhs.edges())):
            rhs.add_edge(fggs.Edge(ren[e.label.name], list(e.nodes), id=e.id))
        g2b.add_rule(fggs.HRGRule(ren[r.lhs.name], rhs))
    pool = [q for q in QUERIES if not (q == 'sp-real-linear' and not linear_ok) and not (q == 'viterbi' and asst is None) and not (q == 'factorize_rule' and rule0 is None)]
    if fz is not None:
        pool = pool + ['fz:fgg_to_json', 'fz:fgg_to_json', 'fz:hrg_to_json', 'fz:sum_product']
    seq = [rng.choice(pool) for _ in range(12)]
    # make sure queries repeat
    seq[6:9] = seq[0:3]
    first = {}
    repeated = 0
    for step, q in enumerate(seq):
        before = snapshot(fgg, (g2, g2b))
        before_fz = snapshot(fz) if fz is not None else None
        try:
            twin = fgg.copy()             # == is a public observation too: the grammar must stay equal to a copy taken before
            twin_ok = (fgg == twin)
        except Exception:                 # a failing copy() is judged by C16, not here
            twin, twin_ok = None, False
        out = C.call(do, q)
        obs['queries'] += 1
        after = snapshot(fgg, (g2, g2b))
        obs['snapshots_compared'] += 1
        d = diff_snapshot(before, after)
        if d is None and fz is not None:
            d2 = diff_snapshot(before_fz, snapshot(fz))
            if d2:
                d = 'the factorized grammar passed to the query: ' + d2
        if d is None and twin_ok:
            obs['equality_with_earlier_copy_checked'] = obs.get('equality_with_earlier_copy_checked', 0) + 1
            if not (fgg == twin):
                d = 'the grammar is no longer == to a copy taken before the query (hidden state changed)'
        ctx = dict(step=step, query=q, sequence=seq, requires_grad=grad, patterned=typed)
        if d:
            viols.append(C.viol(f'input-mutated:{q}', f'{q} (step {step}, {"raised " + str(out["exc"]) if not out["ok"] else "ok"}): {d}', context=ctx))
            break
        if not out['ok']:
            # a query that fails must fail reproducibly; failures themselves are judged by other properties
            rep = ('error', out['exc_type'])
        else:
            try:
                rep = result_repr(q, out['value'])
            except Exception as e:
                rep = ('error', f'repr:{type(e).__name__}')
        if q in first:
            repeated += 1
            obs['repeated_queries_compared'] += 1
            a, b = first[q][1], rep
            ok = (a == b) if a[0] == 'error' or b[0] == 'error' else same_result(a, b)
            if not ok:
                viols.append(C.viol(f'not-reproducible:{q}', f'{q} at step {step} differs from its result at step {first[q][0]} (queries in between: {seq[first[q][0] + 1:step]})', context=ctx))
                break
        else:
            first[q] = (step, rep)
    # MultiTensor clone + in-place ops leave the source alone
    if index % 2 == 0:
        multitensor_probe(fggs, M, I, rng, viols, obs)
    for v in viols:
        v['spec'] = spec
    rec = bool(G.recursive_nts(spec))
    return dict(cls=cls + ('-patterned' if typed else ''), features=(['requires_grad'] if grad else ['no-grad']) + (['patterned'] if typed else ['dense']) + sorted(set(seq)),
                verdict='violated' if viols else 'held', violations=viols, obs=obs, nontrivial=repeated >= 2 and (rec or typed),
                key=C.hkey([spec, seq]), evals=max(1, obs['queries']), sample=dict(spec=G.describe(spec), sequence=seq, requires_grad=grad))


def multitensor_probe(fggs, M, I, rng, viols, obs):
    import torch
    for S in ('real', 'log', 'bool'):
        sr = G.make_semiring(fggs, S, torch.float64)
        dtype = torch.bool if S == 'bool' else torch.float64
        shapes = {'X': torch.Size([2]), 'Y': torch.Size([2, 3]), 'Z': torch.Size([])}
        def rnd(shape):
            t = torch.rand(shape, dtype=torch.float64)
            return I.PatternedTensor((t > 0.5) if S == 'bool' else (t.log() if S == 'log' else t), default=sr.from_int(0).item())
        a = M.MultiTensor(shapes, sr)
        b = M.MultiTensor(shapes, sr)
        for k in shapes:
            if rng.random() < 0.8:
                a[k] = rnd(shapes[k])
            if rng.random() < 0.8:
                b[k] = rnd(shapes[k])
        snap = {k: (A.densify_pt(v).clone(), v.physical._version) for k, v in a.items()}
        snapb = {k: (A.densify_pt(v).clone(), v.physical._version) for k, v in b.items()}
        keys = set(a.keys())
        ops = []
        try:
            # a clone is a copy: same blocks, equal contents (an empty or partial "clone" would pass every aliasing probe below)
            c = a.clone()
            if set(c.keys()) != keys or any(not bool(((A.densify_pt(c[k]) == snap[k][0]) | (A.densify_pt(c[k]) != A.densify_pt(c[k])) & (snap[k][0] != snap[k][0])).all()) for k in keys):
                viols.append(C.viol('multitensor-clone-differs', f'MultiTensor.clone() has blocks {sorted(c.keys())} / contents different from its source (blocks {sorted(keys)}) ({S})'))
            # each in-place operation is applied to its own fresh clone, first thing after cloning
            c = a.clone(); c.copy_(b); ops.append('copy_')
            c = a.clone()
            for k in list(c):
                if c[k].physical.numel() and not c[k].physical.requires_grad:
                    c[k].physical.zero_()
                c[k].default = 5
            ops.append('block.physical.zero_ / block.default=')
            c = a.clone()
            for k in list(c):
                c[k].copy_(rnd(shapes[k]))
            ops.append('block.copy_')
            c = a.clone(); c += b; ops.append('+=')
            for k in list(c):
                c[k].physical.zero_() if c[k].physical.numel() else None
            if S != 'bool':
                c = a.clone(); c.maximum_(b); ops.append('maximum_')
            c = a.clone(); c -= a; ops.append('-=')
            d = a + b; ops.append('+')
            for k in list(d):
                if k in a and d[k].physical.numel():
                    d[k].physical.fill_(True if S == 'bool' else 7.0)
            d = a - a; ops.append('-')
        except Exception as e:
            ops.append(f'({type(e).__name__}: {e})'[:120])
        obs['multitensor_probes'] += 1
        # the property speaks about the *source of the clone* (a); blocks of the other operand b may be shared by a result
        for nm, mt, sn in (('a', a, snap),):
            if set(mt.keys()) != set(sn):
                viols.append(C.viol('multitensor-clone-aliases-source:keys', f'in-place ops on a clone changed the key set of the source ({ops})'))
                continue
            for k, (dn, ver) in sn.items():
                now = A.densify_pt(mt[k])
                if not bool(((now == dn) | (now != now) & (dn != dn)).all()) or mt[k].physical._version != ver:
                    viols.append(C.viol('multitensor-clone-aliases-source', f'in-place operations ({ops}) on a clone / sum changed block {k} of the source MultiTensor {nm} ({S})'))
                    break


def replay(rep):
    return run_case(rep['tier'], rep['seed'], rep['index'], rep.get('spec'))


def finalize(tot, tier, seed):
    inc = []
    for k in ('queries', 'snapshots_compared', 'repeated_queries_compared', 'multitensor_probes'):
        if tot['obs'].get(k, 0) == 0:
            inc.append(f'{k} never observed')
    for q in QUERIES:
        if tot['features'].get(q, 0) == 0:
            inc.append(f'query {q} never issued')
    for f in ('requires_grad', 'no-grad', 'patterned', 'dense'):
        if tot['features'].get(f, 0) == 0:
            inc.append(f'feature {f} never generated')
    return {}, inc
