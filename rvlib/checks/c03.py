"""C03 — gradients of the sum-product are the true derivatives.

Boundary monitor: sum_product(...).to_dense() -> random linear functional -> backward(); the
observed weights.grad is compared with torch.autograd through an independent dense, *unrolled*
Kleene iteration (oracle/sumproduct_ref.Dense), whose limit the property defines as the truth."""
import math
from . import common as C
from ..core import env
from ..gen import fggspec as G
from ..oracle import sumproduct_ref as R
from ..oracle import axis_ref as A
from ..monitor.hooks import Hooks

PROPERTY = 'C03'
RULE = ('case = one generated FGG spec (non-recursive, linear, non-linear, mixed; conditioned to spectral radius <= 0.9; strata for shared '
        'factors, a factor twice in one rule, edges on external nodes, edgeless nodes, unreachable factors, zero weights, patterned weights) '
        'differentiated under {Real, Log} x {fixed-point, newton, linear when admissible} with a random output cotangent; '
        'evaluations = specs; non-trivial = some reference gradient entry is non-zero and the spec has >= 2 factors; distinct = spec hashes')
ASSUMPTIONS = ['reference gradient: autograd through K unrolled dense Kleene steps, K doubled until values and gradients agree to 1e-10; otherwise declined',
               'library run with tol=1e-14, kmax=10000; gradients compared with rtol 1e-6, atol 1e-8*scale',
               'Log semiring: derivative w.r.t. finite log-weights only; output cotangent supported on finite entries of log Z', 'output cotangents are random with positive (even cases) or mixed-sign / negative (odd cases) coefficients',
               'no infinite weights', 'recursive specs whose least fixed point has a positive entry below 1e-6 are declined (absolute stopping rule: relative accuracy of such entries, hence of gradients, is not controlled by tol)']
CLASSES = ('nonrec', 'linear', 'nonlinear', 'mixed')


def plan(tier, seed):
    return dict(n=144 if tier == 'quick' else 4000, budget_s=150 if tier == 'quick' else 840, case_timeout=300)


def gen(tier, seed, index):
    rng = G.rng_for(seed, 'C03', tier, index)
    cls = CLASSES[index % len(CLASSES)]
    typed = (index // 4) % 3 == 2
    pool = ['shared-factor', 'factor-twice-in-rule', 'ext-also-attached-twice', 'edgeless-internal', 'edgeless-ext', 'unreachable-nt',
            'zero-weight', 'edge-twice', 'start-arity', 'jpre-shape', 'nullary', 'plain', 'unproductive-nt', 'unproductive-nt', 'pass-through-self-rule']
    forced = [pool[(index // 4) % len(pool)]]
    spec = G.gen_spec(rng, cls, forced, allow_inf=False, typed=typed, max_nodes=4)
    return spec, dict(cls=cls, typed=typed, forced=forced)


def reference(spec, cot_seed):
    """returns dict(values, grads (real), lvalues, lgrads (log), cot, K) or None"""
    import torch
    d0 = R.Dense(spec, 'real')
    rec = bool(G.recursive_nts(spec))
    if rec:
        for attempt in range(6):
            x, it, ok, hist = R.Dense(spec, 'real').kleene(max_iter=3000)
            if ok and all(torch.isfinite(x[n]).all() for n in x):
                rho = R.Dense(spec, 'real').spectral_radius(x)
                if rho <= 0.9:
                    break
            G.scale_recursive(spec, 0.5)
            if 'patterns' in spec:
                rescale_patterns(spec, 0.5)
        else:
            return None
        K0 = 2 * it + 10
        # the library's iterations stop on an absolute change <= tol: if some nonterminal value is tiny, its
        # relative error (and with it the error of gradients, which are multilinear in those values) is not
        # controlled by tol; such specs are outside what "error vanishes as tol does" lets us compare at 1e-6
        pos = [float(v[v > 0].min()) for v in x.values() if (v > 0).any()]
        if pos and min(pos) < 1e-6:
            return None
        min_pos = min(pos) if pos else None
    else:
        K0 = len(spec['nonterminals']) + 1
        rho = 0.0
        min_pos = None
    start = spec['start']
    shape = G.shape_of(spec, spec['nonterminals'][start])
    if cot_seed is None:          # all-ones cotangent (what bin/sum_product.py -g/-G uses by default)
        cot = torch.ones(shape, dtype=torch.float64)
    else:
        g = torch.Generator().manual_seed(cot_seed)
        cot = torch.rand(shape, generator=g, dtype=torch.float64) + 0.25
        if cot_seed % 2:          # any linear functional: mixed-sign / negative coefficients too
            cot = cot * torch.where(torch.rand(shape, generator=g) < 0.5, -1.0, 1.0).to(torch.float64) if shape else -cot

    def run(K, log):
        leaves = {}
        ws = {}
        for t in spec['terminals']:
            w = torch.tensor(G.weights_in(spec, t, 'log' if log else 'real'), dtype=torch.float64, requires_grad=True)
            leaves[t] = w
            ws[t] = w.exp() if log else w
        d = R.Dense(spec, 'real', ws)
        x = d.unrolled(K)
        z = x[start]
        if log:
            mask = z > 0
            val = torch.where(mask, z, torch.ones_like(z)).log()
            loss = (torch.where(mask, val, torch.zeros_like(val)) * cot * mask).sum()
            zval = torch.where(mask, val, torch.full_like(val, -math.inf))
        else:
            loss = (z * cot).sum()
            zval = z
        if loss.requires_grad:
            grads = torch.autograd.grad(loss, list(leaves.values()), allow_unused=True)
        else:       # no terminal takes part in any derivation (e.g. every rule is a unit rule)
            grads = [None] * len(leaves)
        return zval.detach(), {t: (g_ if g_ is not None else torch.zeros_like(leaves[t])).detach() for t, g_ in zip(leaves, grads)}
    out = {}
    for log in (False, True):
        K = K0
        z1, g1 = run(K, log)
        while True:
            z2, g2 = run(2 * K, log)
            okz = torch.allclose(z1, z2, rtol=1e-11, atol=1e-13, equal_nan=True)
            okg = all(torch.allclose(g1[t], g2[t], rtol=1e-9, atol=1e-12, equal_nan=True) for t in g1)
            if okz and okg:
                break
            K *= 2
            z1, g1 = z2, g2
            if K > 6000 or not rec:
                return None
        if any(torch.isnan(v).any() or torch.isinf(v).any() for v in g2.values()):
            return None
        out['log' if log else 'real'] = (z2, g2)
    return dict(out=out, cot=cot, K=K, rho=rho, min_pos=min_pos)


def rescale_patterns(spec, factor):
    for t, ps in spec['patterns'].items():
        ps['physical'] = G.map_nested(ps['physical'], lambda x: x * factor if math.isfinite(x) else x)
        ps['default'] = ps['default'] * factor
        spec['weights'][t] = A.densify(ps)[0]


def check_spec(spec, meta, index):
    import torch
    fggs = env.setup()
    SP = env.mod('fggs.sum_product')
    viols = []
    obs = dict(backward_runs=0, grad_entries_compared=0, grad_none_accepted=0, duplicate_node_renamings=0)
    ref = reference(spec, cot_seed=index)
    if ref is None:
        return dict(verdict='declined', violations=[], obs=obs, nontrivial=False)
    linear_ok = G.is_linear(spec)
    rec = bool(G.recursive_nts(spec))
    nontrivial = False
    start = spec['start']
    with Hooks() as h:
        h.spy(SP.SumProduct, 'backward', key='SumProduct.backward', static=True)
        h.spy(SP, 'J', key='J')
        h.spy(SP, 'J_log', key='J_log')

        def on_ret(r, a, k):
            ext, dup = r
            if len(set(ext)) == len(ext) and len(ext) != len(set(a[1])):
                obs['duplicate_node_renamings'] += 1
        h.spy(SP, 'rename_duplicate_nodes', on_return=on_ret, key='rename_duplicate_nodes')
        for S in ('real', 'log'):
            zref, gref = ref['out'][S]
            if any((g != 0).any() for g in gref.values()) and len(spec['terminals']) >= 2:
                nontrivial = True
            methods = ['fixed-point', 'newton'] + (['linear'] if linear_ok else [])
            for method in methods:
                builder = G.pattern_weight_builder(fggs, spec, S) if meta['typed'] else None
                fgg, info = G.build_fgg(fggs, spec, S, torch.float64, weight_builder=builder, requires_grad=True)
                sr = G.make_semiring(fggs, S, torch.float64)
                ctx = dict(semiring=S, method=method, typed=meta['typed'], cls=meta['cls'])

                def run():
                    z = fggs.sum_product(fgg, method=method, semiring=sr, tol=1e-14, kmax=10000).to_dense()
                    if S == 'log':
                        mask = torch.isfinite(zref)
                        loss = (torch.where(mask, z, torch.zeros_like(z)) * ref['cot'] * mask).sum()
                    else:
                        loss = (z * ref['cot']).sum()
                    if loss.requires_grad:
                        loss.backward()
                    return z.detach()
                out = C.call(run)
                obs['backward_runs'] += 1
                if not out['ok']:
                    viols.append(C.viol(f"exception:{S}:{method}:{out['exc_type']}:{out.get('where', '')}", f'sum_product/backward raised {out["exc"]}', context=ctx, traceback=out['tb']))
                    continue
                if out['warnings']:      # the caller has been warned: an unconverged value is allowed
                    continue
                msg = C.close_tensor(out['value'], zref, 'float64', rtol=1e-8, atol=1e-9)
                if msg:
                    viols.append(C.viol(f'value:{S}:{method}', msg, context=ctx))
                    continue
                for t in spec['terminals']:
                    w = info['weights'][t]
                    phys = w if isinstance(w, torch.Tensor) else w.physical
                    g = phys.grad
                    gd = gref[t]
                    wd = torch.tensor(G.weights_in(spec, t, S), dtype=torch.float64).reshape(gd.shape)
                    if meta['typed']:
                        # project the dense reference gradient onto the physical storage
                        ps = spec['patterns'][t]
                        exp = torch.zeros(ps['psizes'], dtype=torch.float64) if ps['psizes'] else torch.zeros((), dtype=torch.float64)
                        finite = torch.ones_like(exp, dtype=torch.bool)
                        import itertools
                        for idx in itertools.product(*[range(n) for n in ps['psizes']]):
                            v = tuple(A.ev(e, idx, ps['psizes']) for e in ps['vaxes'])
                            exp[idx] = gd[v] if v else gd
                            finite[idx] = bool(torch.isfinite(wd[v] if v else wd))
                        # the library squeezes size-1 physical axes
                        exp = exp.reshape(phys.shape)
                        finite = finite.reshape(phys.shape)
                    else:
                        exp = gd
                        finite = torch.isfinite(wd)
                    if g is None:
                        if (exp[finite] != 0).any():
                            viols.append(C.viol(f'grad-none:{S}:{method}', f'{t}.grad is None but the reference derivative is {C.short(exp.tolist())}', context=ctx))
                        else:
                            obs['grad_none_accepted'] += 1
                        continue
                    if S == 'log':
                        sel = finite
                    else:
                        sel = torch.ones_like(finite)
                    go, ge = g[sel], exp[sel]
                    obs['grad_entries_compared'] += int(sel.sum())
                    scale = float(ge.abs().max()) if ge.numel() else 0.0
                    bad = ~torch.isclose(go, ge, rtol=1e-6, atol=1e-8 * max(1.0, scale))
                    if bad.any() or torch.isnan(go).any():
                        i = int(bad.nonzero()[0]) if bad.any() else 0
                        feat = G.features_of(spec)
                        viols.append(C.viol(f'grad:{S}:{method}', f'd/d{t}: observed {go[i].item()!r} expected {ge[i].item()!r}; observed={C.short(g.tolist())} expected={C.short(exp.tolist())}',
                                            context=dict(ctx, K=ref['K'], rho=ref['rho'], features=sorted(feat))))
        # a weight tensor edited in place between the forward call and backward(): autograd refuses (RuntimeError), which is
        # fine; what is not fine is a gradient that silently belongs to neither the old nor the new weights
        if not viols and not meta['typed'] and index % 3 == 0 and spec['terminals']:
            for S in ('real', 'log'):
                zref, gref = ref['out'][S]
                fgg, info = G.build_fgg(fggs, spec, S, torch.float64, requires_grad=True)
                sr = G.make_semiring(fggs, S, torch.float64)
                o1 = C.call(lambda: fggs.sum_product(fgg, method='fixed-point', semiring=sr, tol=1e-14, kmax=10000).to_dense())
                if not o1['ok'] or o1['warnings'] or not o1['value'].requires_grad:
                    continue
                z = o1['value']
                tname = sorted(spec['terminals'])[index % len(spec['terminals'])]
                w = info['weights'][tname]
                with torch.no_grad():
                    (w if isinstance(w, torch.Tensor) else w.physical).mul_(0.5) if S == 'real' else (w if isinstance(w, torch.Tensor) else w.physical).sub_(0.7)
                if S == 'log':
                    mask = torch.isfinite(zref)
                    loss = (torch.where(mask, z, torch.zeros_like(z)) * ref['cot'] * mask).sum()
                else:
                    loss = (z * ref['cot']).sum()
                o2 = C.call(loss.backward)
                obs['backward_after_inplace_edit'] = obs.get('backward_after_inplace_edit', 0) + 1
                if not o2['ok']:
                    obs['backward_after_inplace_edit_refused'] = obs.get('backward_after_inplace_edit_refused', 0) + 1
                    continue
                for t in spec['terminals']:
                    wt = info['weights'][t]
                    g = (wt if isinstance(wt, torch.Tensor) else wt.physical).grad
                    gd = gref[t]
                    if g is None:
                        continue
                    wd = torch.tensor(G.weights_in(spec, t, S), dtype=torch.float64).reshape(gd.shape)
                    sel = torch.isfinite(wd) if S == 'log' else torch.ones_like(wd, dtype=torch.bool)
                    go, ge = g.reshape(gd.shape)[sel], gd[sel]
                    scale = float(ge.abs().max()) if ge.numel() else 0.0
                    if bool((~torch.isclose(go, ge, rtol=1e-6, atol=1e-8 * max(1.0, scale))).any()):
                        viols.append(C.viol(f'grad-after-inplace-edit:{S}', f'factor {tname} was edited in place after the forward call; backward() did not refuse and d/d{t} is not the derivative of the value that was returned',
                                            context=dict(semiring=S, edited=tname)))
                        break
        hooks = dict(h.count)
    return dict(verdict='violated' if viols else 'held', violations=viols, obs=obs, nontrivial=nontrivial, hooks=hooks, rho=ref['rho'])


def run_case(tier, seed, index, spec=None, meta=None):
    if spec is None:
        spec, meta = gen(tier, seed, index)
    res = check_spec(spec, meta, index)
    feats = sorted(G.features_of(spec)) + ['patterned' if meta['typed'] else 'dense'] + [f for f in meta['forced'] if f == 'unproductive-nt']
    res.update(cls=meta['cls'], features=feats, key=G.spec_key(spec), sample=dict(spec=G.describe(spec), meta=meta, rho=res.pop('rho', None)))
    for v in res['violations']:
        v['spec'] = spec
        v['meta'] = meta
    return res


def replay(rep):
    if 'spec' in rep:
        return run_case(rep['tier'], rep['seed'], rep['index'], rep['spec'], rep['meta'])
    return run_case(rep['tier'], rep['seed'], rep['index'])


def finalize(tot, tier, seed):
    inc = []
    for k in ('SumProduct.backward', 'J', 'J_log', 'rename_duplicate_nodes'):
        if tot['hooks'].get(k, 0) == 0:
            inc.append(f'hook {k} never reached')
    if tot['obs'].get('duplicate_node_renamings', 0) == 0:
        inc.append('no differentiation ever produced duplicated external nodes (rename_duplicate_nodes special case unreached)')
    if tot['obs'].get('grad_entries_compared', 0) == 0:
        inc.append('no gradient entry compared')
    for f in ('unproductive-nt', 'shared-factor', 'factor-twice-in-rule', 'edge-on-ext', 'edgeless-internal', 'unreachable-nt', 'zero-weight', 'patterned', 'recursive'):
        if tot['features'].get(f, 0) == 0:
            inc.append(f'feature {f} never generated')
    return {}, inc
