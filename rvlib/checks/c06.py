"""C06 — patterned tensors behave exactly like the dense tensors they denote.

(i) every offered operation on random well-typed operands vs the torch operation on dense operands
    (densified by our own index arithmetic, oracle/axis_ref);
(ii) FGGS_VERIF hook on PatternedTensor.__post_init__: representation invariant of every
    PatternedTensor the library constructs (monitor/repinv), also under sum-product workloads;
(iii) random programs of 2-4 operations executed in lock-step on patterned and dense pools."""
import itertools, math
from . import common as C
from ..core import env
from ..gen import fggspec as G
from ..gen import types_patterns as TP
from ..oracle import axis_ref as A
from ..oracle import semiring_ref as SR
from ..monitor import repinv

PROPERTY = 'C06'
RULE = ('case = a tuple of well-typed PatternedTensor operands over common index types (nesting depth <= 2 quick / 3 thorough, shared axes, '
        'stride-0 storage, size-1 and whole-dimension zero-size axes, defaults in {0,1,-inf,inf,2.5,-1.5, nan in its own class}) put through '
        'every public operation of the class and through short random programs; plus sum-product workloads under the construction hook. '
        'evaluations = operation instances compared; non-trivial = operand tuple with a non-dense pattern (sum/product/shared axis); '
        'distinct = distinct operand-tuple hashes')
ASSUMPTIONS = ['nan defaults only with add/sub/mul, comparisons and the structural operations (maximum/clamp/relu use Python max/min on the default, which do not propagate NaN like torch)', 'unary maps on their real domains: log/log_ on tensors whose default is >= 0, log1p_ on default >= -1; division only where the divisor\'s default is non-zero (Python float arithmetic on defaults raises there)',
               'norm only for defaults >= 0; relu_/clamp with a nan default excluded (Python max/min vs torch)',
               'positions where the dense torch reference is NaN because the operation is undefined there (log_softmax over all -inf or inf-containing slices) are unconstrained',
               'exact operations compared bitwise (NaN-aware, +0 == -0); div/exp/expm1/log/log1p/logaddexp/log_softmax/norm within 4 ulp or 1e-12 relative',
               'nested zero-size factors only in the thorough tier']


def plan(tier, seed):
    return dict(n=1000 if tier == 'quick' else 40000, budget_s=80 if tier == 'quick' else 840, case_timeout=120)


FVALS = [0.0, 0.0, 1.0, -1.5, 2.5, 0.5, 3.0, -0.25, 7.0, math.inf, -math.inf]
FDEF = [0.0, 0.0, 1.0, -math.inf, math.inf, 2.5, -1.5]


class Ctx:
    def __init__(self, viols, obs, info):
        self.viols, self.obs, self.info = viols, obs, info

    def V(self, sig, msg, **kw):
        self.viols.append(C.viol(sig, msg, operands=self.info, **kw))


def same(got, exp, mode='exact'):
    import torch
    if tuple(got.shape) != tuple(exp.shape):
        return f'shape {tuple(got.shape)} != {tuple(exp.shape)}'
    if got.dtype != exp.dtype:
        if got.dtype == torch.bool or exp.dtype == torch.bool:
            got, exp = got.to(torch.bool), exp.to(torch.bool)
        else:
            exp = exp.to(got.dtype)
    if got.numel() == 0:
        return None
    if got.dtype == torch.bool or not got.dtype.is_floating_point:
        return None if torch.equal(got, exp) else first_diff(got, exp)
    eq = (got == exp) | (torch.isnan(got) & torch.isnan(exp))
    if mode == 'exact':
        return None if bool(eq.all()) else first_diff(got, exp, eq)
    if mode == 'nan-free':        # reference NaN = unconstrained
        eq = eq | torch.isnan(exp)
    rel = 1e-12 if got.dtype == torch.float64 else 2e-6
    close = (SR.ulps(got, exp) <= 4) | ((got - exp).abs() <= rel * torch.maximum(exp.abs(), torch.ones_like(exp)))
    ok = eq | close
    return None if bool(ok.all()) else first_diff(got, exp, ok)


def first_diff(got, exp, ok=None):
    import torch
    bad = (got != exp) if ok is None else ~ok
    if got.dtype.is_floating_point and ok is None:
        bad = bad & ~(torch.isnan(got) & torch.isnan(exp))
    idx = bad.reshape(-1).nonzero()
    i = int(idx[0]) if idx.numel() else 0
    return f'element {i}: got {got.reshape(-1)[i].item()!r} expected {exp.reshape(-1)[i].item()!r}; got={C.short(got.tolist(), 200)} expected={C.short(exp.tolist(), 200)}'


def run_op(cx, name, lib, ref, mode='exact', allow=(), result='pt', sig_extra=''):
    """lib() -> PatternedTensor|Tensor|python ; ref() -> dense tensor / value"""
    import torch
    cx.obs['op_instances'] += 1
    cx.obs['op_' + name] = cx.obs.get('op_' + name, 0) + 1
    r = C.call(ref)
    if not r['ok']:
        return None      # torch itself rejects the operation on these operands: nothing to compare
    out = C.call(lib)
    if not out['ok']:
        if out['exc_type'] in allow:
            cx.obs['allowed_exceptions'] = cx.obs.get('allowed_exceptions', 0) + 1
            return None
        cx.V(f"exception:{name}:{out['exc_type']}:{out.get('where', '')}", f'{name} raised {out["exc"]}', traceback=out['tb'])
        return None
    if any('index type mismatch' in w for w in out['warnings']):
        cx.obs['type_mismatch_warnings'] = cx.obs.get('type_mismatch_warnings', 0) + 1
    val = out['value']
    if result == 'pt':
        inv = A.check_invariant(val)
        if inv:
            cx.V(f'invariant:{name}', f'result of {name} violates the representation invariant: {inv}')
            return val
        got = A.densify_pt(val)
        td = val.to_dense()
        if same(td, got) is not None:
            cx.V(f'to_dense:{name}', f'to_dense() of the result of {name} differs from its own pattern: {same(td, got)}')
    elif result == 'tensor':
        got = val
    else:
        if val != r['value'] and not (isinstance(val, float) and math.isnan(val) and math.isnan(r['value'])):
            cx.V(f'value:{name}{sig_extra}', f'{name}: got {val!r} expected {r["value"]!r}')
        return val
    msg = same(got, r['value'], mode)
    if msg:
        sig = f'value:{name}{sig_extra}'
        cx.V(sig, f'{name}: {msg}')
    elif result == 'pt' and isinstance(r['value'], torch.Tensor) and val.physical.dtype != r['value'].dtype:
        # same values in another element type are not "the same dense tensor": a following operation behaves differently
        cx.V(f'dtype:{name}{sig_extra}', f'{name}: result stored as {val.physical.dtype}, the corresponding torch operation gives {r["value"].dtype}')
    return val


def mk_operands(rng, I, dtype, cls, tier):
    """returns (specs, tensors, denses) for 3 operands over common types + bool versions"""
    import torch
    depth = 3 if tier == 'thorough' and rng.random() < 0.5 else 2
    allow_zero = cls == 'zero-size'
    ts = TP.common_types(rng, depth=depth, max_numel=12, max_total=300, allow_zero=allow_zero)
    if allow_zero and rng.random() < 0.4:
        ts = TP.zero_summand_types(rng)         # well-typed injections with equal before / different after
    elif allow_zero and all(TP.t_numel(T) for T in ts):
        ts[rng.randrange(len(ts))] = ('atom', 0)
    vals = FVALS if cls != 'finite' else [v for v in FVALS if math.isfinite(v)]
    defs = FDEF if cls != 'finite' else [0.0, 1.0, 2.5, -1.5]
    if cls == 'nan':
        defs = [math.nan, 0.0]
        vals = vals + [math.nan]
    specs, tens, dens = [], [], []
    for k in range(3):
        ps = TP.gen_pattern(rng, ts, lambda: rng.choice(vals), rng.choice(defs))
        if k == 0:
            t = TP.realise(I, ps, dtype)
        else:
            t, _ = TP.realise_sharing(I, rng, ps, dtype, tens[0])
        specs.append(ps)
        tens.append(t)
        dens.append(torch.tensor(A.densify(ps)[0], dtype=dtype).reshape(A.shape_of(ps)))
    return ts, specs, tens, dens


def elementwise(cx, rng, t, u, d, e, ts=()):
    import torch
    run_op(cx, 'add', lambda: t.add(u), lambda: d + e)
    run_op(cx, 'sub', lambda: t.sub(u), lambda: d - e)
    run_op(cx, 'mul', lambda: t.mul(u), lambda: d * e)
    run_op(cx, '__add__', lambda: t + u, lambda: d + e)
    run_op(cx, '__sub__', lambda: t - u, lambda: d - e)
    run_op(cx, '__mul__', lambda: t * u, lambda: d * e)
    if u.default != 0:
        run_op(cx, 'div', lambda: t.div(u), lambda: d / e, mode='ulp')
        run_op(cx, '__truediv__', lambda: t / u, lambda: d / e, mode='ulp')
    run_op(cx, 'logaddexp', lambda: t.logaddexp(u), lambda: torch.logaddexp(d, e), mode='ulp')
    run_op(cx, 'maximum', lambda: t.maximum(u), lambda: torch.maximum(d, e))
    for nm in ('lt', 'le', 'gt', 'ge', 'eq'):
        run_op(cx, nm, lambda: getattr(t, nm)(u), lambda: getattr(d, nm)(e))
        s = rng.choice([0.0, 1.0, -1.5, 2.5, math.inf, -math.inf])
        run_op(cx, nm + '-scalar', lambda: getattr(t, nm)(s), lambda: getattr(d, nm)(s))
    # operands that share PhysicalAxis objects (the library has to rename one side apart itself)
    run_op(cx, 'add-self', lambda: t.add(t), lambda: d + d)
    run_op(cx, 'sub-self', lambda: t.sub(t), lambda: d - d)
    run_op(cx, 'maximum-self', lambda: t.maximum(t), lambda: torch.maximum(d, d))
    s0 = rng.choice([0.0, 0.5, 1.0])
    run_op(cx, 'where-shared-axes', lambda: t.where(t.gt(s0), u), lambda: torch.where(d > s0, d, e))
    run_op(cx, 'where-shared-axes2', lambda: u.where(t.gt(s0), t), lambda: torch.where(d > s0, e, d))
    if d.ndim == 2 and len(ts) == 2 and ts[0] == ts[1]:      # transposition is well typed only between equal index types
        run_op(cx, 'mul-self-transposed', lambda: t.mul(t.T), lambda: d * d.T)
        run_op(cx, 'where-transposed-cond', lambda: t.where(t.T.gt(s0), u), lambda: torch.where(d.T > s0, d, e))
    # broadcasting against a 0-dim PatternedTensor and against one whose dimensions all have size 1
    I_ = env.mod('fggs.indices')
    sv = rng.choice([0.5, 2.0, -1.0, 3.0])
    sdef = rng.choice([0.0, 0.0, 1.0])
    c0 = I_.PatternedTensor(torch.tensor(sv, dtype=d.dtype), (), (), sdef)
    c1 = I_.PatternedTensor(torch.tensor(sv, dtype=d.dtype), (), tuple(I_.unitAxis for _ in range(d.ndim)), sdef)
    for nm_, c_ in (('0dim', c0), ('unit-dims', c1)):
        run_op(cx, f'add-broadcast-{nm_}', lambda: t.add(c_), lambda: d + sv)
        run_op(cx, f'radd-broadcast-{nm_}', lambda: c_.add(t), lambda: sv + d)
        run_op(cx, f'mul-broadcast-{nm_}', lambda: t.mul(c_), lambda: d * sv)
        run_op(cx, f'sub-broadcast-{nm_}', lambda: t.sub(c_), lambda: d - sv)
        run_op(cx, f'maximum-broadcast-{nm_}', lambda: t.maximum(c_), lambda: torch.maximum(d, torch.tensor(sv, dtype=d.dtype)))
        for cmp_ in ('lt', 'le', 'gt', 'ge', 'eq'):
            run_op(cx, f'{cmp_}-broadcast-{nm_}', lambda: getattr(t, cmp_)(c_), lambda: getattr(d, cmp_)(sv))
    s = rng.choice([0.5, 2.0, -1.0, 0.0, 3])
    run_op(cx, 'add-scalar', lambda: t.add(s), lambda: d + s)
    run_op(cx, 'sub-scalar', lambda: t.sub(s), lambda: d - s)
    run_op(cx, 'mul-scalar', lambda: t.mul(s), lambda: d * s)
    if s != 0:
        run_op(cx, 'div-scalar', lambda: t.div(s), lambda: d / s, mode='ulp')


def unary(cx, rng, t, d, cls):
    import torch
    run_op(cx, 'abs', lambda: t.abs(), lambda: d.abs())
    run_op(cx, 'exp', lambda: t.exp(), lambda: d.exp(), mode='ulp')
    run_op(cx, 'expm1', lambda: t.expm1(), lambda: d.expm1(), mode='ulp')
    nonneg = t.abs()
    dn = d.abs()
    run_op(cx, 'log', lambda: nonneg.log(), lambda: dn.log(), mode='ulp')
    m = rng.choice([0.0, 1.0, -1.0, 2.5])
    if not (isinstance(t.default, float) and math.isnan(t.default)):
        run_op(cx, 'clamp_min', lambda: t.clamp_min(m), lambda: d.clamp_min(m))
        run_op(cx, 'clamp_max', lambda: t.clamp_max(m), lambda: d.clamp_max(m))
    other = torch.float32 if d.dtype == torch.float64 else torch.float64
    run_op(cx, 'to', lambda: t.to(other), lambda: d.to(other))
    # conversions that change the VALUE of the default (2.75 -> True, 2.75 -> 2), observed through a second operation
    if not (isinstance(t.default, float) and math.isnan(t.default)):
        run_op(cx, 'to-bool-to-float', lambda: t.to(torch.bool).to(d.dtype), lambda: d.to(torch.bool).to(d.dtype))
        run_op(cx, 'to-bool-logical_not', lambda: t.to(torch.bool).logical_not(), lambda: d.to(torch.bool).logical_not())
    if cls == 'finite':
        run_op(cx, 'to-int-mul', lambda: t.to(torch.int64).mul(2), lambda: d.to(torch.int64) * 2)
        run_op(cx, 'to-int-eq', lambda: t.to(torch.int64).eq(2), lambda: d.to(torch.int64).eq(2))
    # in-place forms act on a clone and must not touch the source
    before = A.densify_pt(t).clone()
    pb = t.physical.clone()

    def inplace(name, f, ref, mode='exact', cond=True):
        if not cond:
            return
        c = t.clone()
        run_op(cx, name, lambda: f(c), ref, mode=mode)
        if same(A.densify_pt(t), before) is not None or same(t.physical, pb) is not None:
            cx.V(f'inplace-on-clone-changed-source:{name}', f'{name} on a clone changed the source tensor')
    isn = isinstance(t.default, float) and math.isnan(t.default)
    inplace('neg_', lambda c: c.neg_(), lambda: -d)
    inplace('abs_', lambda c: c.abs_(), lambda: d.abs())
    inplace('relu_', lambda c: c.relu_(), lambda: d.relu(), cond=not isn)
    inplace('log_', lambda c: c.abs_().log_(), lambda: d.abs().log(), mode='ulp')
    inplace('log1p_', lambda c: c.abs_().neg_().clamp_min(-1.0).log1p_() if False else c.abs_().log1p_(), lambda: d.abs().log1p(), mode='ulp')
    nn, pi, ni = rng.choice([0.0, 1.0, -1.0]), rng.choice([None, math.inf, 9.0]), rng.choice([None, -math.inf, -9.0])
    inplace('nan_to_num_', lambda c: c.nan_to_num_(nan=nn, posinf=pi, neginf=ni), lambda: d.nan_to_num(nan=nn, posinf=pi, neginf=ni))
    s = rng.choice([2.0, -0.5, 3])
    inplace('__imul__-scalar', lambda c: c.__imul__(s), lambda: d * s)
    inplace('__itruediv__-scalar', lambda c: c.__itruediv__(s), lambda: d / s, mode='ulp')


def shape_ops(cx, rng, I, t, u, d, e, ps):
    import torch
    nd = d.ndim
    if nd >= 2:
        i, j = rng.sample(range(nd), 2)
        run_op(cx, 'transpose', lambda: t.transpose(i, j), lambda: d.transpose(i, j))
        perm = list(range(nd))
        rng.shuffle(perm)
        run_op(cx, 'permute', lambda: t.permute(perm), lambda: d.permute(perm))
    run_op(cx, 'T', lambda: t.T, lambda: d.permute(tuple(reversed(range(nd)))))
    if nd <= 2:
        run_op(cx, 't()', lambda: t.t(), lambda: d.t())
    run_op(cx, 'flatten', lambda: t.flatten(), lambda: d.flatten())
    k = rng.randint(-nd - 1, nd)
    run_op(cx, 'unsqueeze', lambda: t.unsqueeze(k), lambda: d.unsqueeze(k))
    run_op(cx, 'clone', lambda: t.clone(), lambda: d.clone())
    run_op(cx, 'detach', lambda: t.detach(), lambda: d.clone())
    run_op(cx, 'freshen', lambda: t.freshen(), lambda: d.clone())
    nd_ = rng.choice([0.0, 1.0, -math.inf, 2.5])
    run_op(cx, 'default_to', lambda: t.default_to(nd_), lambda: d.clone())
    run_op(cx, 'to_dense', lambda: t.to_dense(), lambda: d.clone(), result='tensor')
    isn = isinstance(t.default, float) and math.isnan(t.default)     # stack requires equal defaults; nan != nan
    if not isn:
        run_op(cx, 'stack', lambda: I.stack([t, u.default_to(t.default)], dim=0), lambda: torch.stack([d, e], dim=0))
    if nd >= 1 and not isn:
        k2 = rng.randrange(nd + 1)
        same_default = u.default_to(t.default)
        run_op(cx, 'stack-dim', lambda: I.stack([t, same_default, t], dim=k2), lambda: torch.stack([d, e, d], dim=k2))
    run_op(cx, 'stack-single', lambda: I.stack([t], dim=0), lambda: torch.stack([d], dim=0))
    # expand: add leading dims and expand size-1 dims
    lead = [rng.randint(1, 3) for _ in range(rng.randint(0, 2))]
    tgt = lead + [(-1 if False else s) for s in d.shape]
    run_op(cx, 'expand', lambda: t.expand(*tgt), lambda: d.expand(*tgt))
    tu = t.unsqueeze(0)
    run_op(cx, 'expand-size1', lambda: tu.expand(3, *d.shape), lambda: d.unsqueeze(0).expand(3, *d.shape))
    run_op(cx, 'expand_as', lambda: tu.expand_as(I.PatternedTensor(torch.zeros(2, *d.shape))), lambda: d.unsqueeze(0).expand(2, *d.shape))
    run_op(cx, 'repeat', lambda: tu.repeat(2, *d.shape), lambda: d.unsqueeze(0).expand(2, *d.shape).clone())
    for dim in range(nd):
        dd = dim
        run_op(cx, 'dim_to_dense', lambda: t.dim_to_dense(dd), lambda: d.clone())
    # copy_: destination becomes equal to the source, source untouched
    dest = u.clone()
    src_before = A.densify_pt(t).clone()
    o = C.call(lambda: dest.copy_(t))
    cx.obs['op_instances'] += 1
    if not o['ok']:
        cx.V(f"exception:copy_:{o['exc_type']}:{o.get('where', '')}", f'copy_ raised {o["exc"]}', traceback=o['tb'])
    else:
        m = same(A.densify_pt(dest), d)
        if m:
            cx.V('value:copy_', f'copy_: {m}')
        dest.physical.reshape(-1)[:1].fill_(123.0) if dest.physical.numel() and dest.physical.is_contiguous() else None
        if same(A.densify_pt(t), src_before) is not None:
            cx.V('copy_-aliases-source', 'writing into the destination of copy_ changed the source')
    # nonphysical / reincarnate
    run_op(cx, 'reincarnate', lambda: t.nonphysical().reincarnate(t.physical), lambda: d.clone())


def reshape_ops(cx, rng, t, d):
    import torch
    numel = d.numel()
    shape = list(d.shape)
    must = []
    # merge adjacent dims
    if len(shape) >= 2:
        i = rng.randrange(len(shape) - 1)
        must.append(shape[:i] + [shape[i] * shape[i + 1]] + shape[i + 2:])
    must.append([numel] if True else None)
    # insert / remove size-1 dims
    k = rng.randint(0, len(shape))
    must.append(shape[:k] + [1] + shape[k:])
    must.append([s for s in shape if s != 1] or [1] * (1 if numel == 1 and not shape else 0) if any(s == 1 for s in shape) else shape)
    for tgt in must:
        if math.prod(tgt) != numel:
            continue
        run_op(cx, 'reshape-must-succeed', lambda: t.reshape(*tgt), lambda: d.reshape(tgt))
        run_op(cx, 'view-merge', lambda: t.view(*tgt), lambda: d.reshape(tgt), allow=('RuntimeError',))
    # arbitrary factorisations (may legitimately raise RuntimeError)
    if numel > 0:
        for _ in range(3):
            tgt, n = [], numel
            while n > 1 and len(tgt) < 3:
                divs = [k_ for k_ in range(1, n + 1) if n % k_ == 0]
                f = rng.choice(divs)
                tgt.append(f)
                n //= f
            tgt.append(n)
            rng.shuffle(tgt)
            if rng.random() < 0.3 and tgt:
                tgt[rng.randrange(len(tgt))] = -1
            t2 = list(tgt)
            run_op(cx, 'reshape-arbitrary', lambda: t.reshape(*t2), lambda: d.reshape(t2), allow=('RuntimeError',))
            run_op(cx, 'view-arbitrary', lambda: t.view(t2), lambda: d.reshape(t2), allow=('RuntimeError',))


def index_ops(cx, rng, t, d):
    import torch
    nd = d.ndim
    if nd == 0:
        run_op(cx, 'item', lambda: t.item(), lambda: d.item(), result='py')
        return
    if any(s == 0 for s in d.shape):
        run_op(cx, 'tolist', lambda: t.tolist(), lambda: d.tolist(), result='py') if d.shape[0] else None
        return
    for _ in range(3):
        k = rng.randint(1, nd)
        idx = tuple(rng.randrange(s) for s in d.shape[:k])
        run_op(cx, '__getitem__', lambda: t[idx], lambda: d[idx])
    i0 = rng.randrange(d.shape[0])
    run_op(cx, '__getitem__-int', lambda: t[i0], lambda: d[i0])
    run_op(cx, '__len__', lambda: len(t), lambda: len(d), result='py')
    o = C.call(lambda: list(t))
    cx.obs['op_instances'] += 1
    if not o['ok']:
        cx.V(f"exception:__iter__:{o['exc_type']}:{o.get('where', '')}", f'iteration raised {o["exc"]}', traceback=o['tb'])
    else:
        rows = o['value']
        if len(rows) != d.shape[0]:
            cx.V('value:__iter__', f'iteration yields {len(rows)} slices, expected {d.shape[0]}')
        else:
            for r_, dr in zip(rows, d):
                m = same(A.densify_pt(r_), dr)
                if m:
                    cx.V('value:__iter__', f'iteration: {m}')
                    break
    o = C.call(t.tolist)
    cx.obs['op_instances'] += 1
    if not o['ok']:
        cx.V(f"exception:tolist:{o['exc_type']}:{o.get('where', '')}", f'tolist raised {o["exc"]}', traceback=o['tb'])
    else:
        try:
            got = torch.tensor(o['value'], dtype=d.dtype).reshape(d.shape)
            m = same(got, d)
        except Exception as ex:
            m = f'tolist() is not a nested list of the right shape: {ex}'
        if m:
            cx.V('value:tolist', f'tolist: {m}')


def empty_axis_reductions(cx, rng, I):
    """any() over a zero-size axis next to an axis whose pattern leaves the (truthy) default visible"""
    import torch
    n = rng.randint(2, 4)
    b = rng.randint(0, 1)
    k0, k1 = I.PhysicalAxis(0), I.PhysicalAxis(n - 1)
    other = I.SumAxis(b, k1, 1 - b)
    first = rng.random() < 0.5
    vaxes = (k0, other) if first else (other, k0)
    paxes = (k0, k1) if rng.random() < 0.5 else (k1, k0)
    phys = torch.zeros(tuple(k._numel for k in paxes), dtype=torch.bool)
    bt = I.PatternedTensor(phys, paxes, vaxes, True)
    bd = torch.ones((0, n) if first else (n, 0), dtype=torch.bool)
    for dim in (0, 1):
        for keep in (False, True):
            dd, kk = dim, keep
            run_op(cx, 'any-next-to-empty-axis', lambda: bt.any(dd, keepdim=kk), lambda: bd.any(dd, keepdim=kk))


def reductions(cx, rng, t, d, bt, bd):
    import torch
    nd = d.ndim
    if nd == 0:
        return
    for dim in range(nd):
        for keep in (False, True):
            dd, kk = dim, keep
            run_op(cx, 'any', lambda: bt.any(dd, keepdim=kk), lambda: bd.any(dd, keepdim=kk))
        if d.shape[dim] > 0:
            dd = dim
            run_op(cx, 'log_softmax', lambda: t.log_softmax(dd), lambda: d.log_softmax(dd), mode='nan-free')
            dm = dim - nd
            run_op(cx, 'log_softmax-negdim', lambda: t.log_softmax(dm), lambda: d.log_softmax(dm), mode='nan-free')
            if isinstance(t.default, (int, float)):
                for p in (1, 2):
                    pp = p
                    run_op(cx, 'norm', lambda: t.norm(pp, dd), lambda: d.norm(pp, dd), mode='nan-free')
                    run_op(cx, 'norm-keepdim', lambda: t.norm(pp, dd, keepdim=True), lambda: d.norm(pp, dd, keepdim=True), mode='nan-free')


def bool_ops(cx, rng, bt, bu, bd, be, t, u, d, e):
    import torch
    run_op(cx, 'logical_or', lambda: bt.logical_or(bu), lambda: bd | be)
    run_op(cx, 'logical_and', lambda: bt.logical_and(bu), lambda: bd & be)
    run_op(cx, 'logical_not', lambda: bt.logical_not(), lambda: ~bd)
    run_op(cx, 'where', lambda: t.where(bt, u), lambda: torch.where(bd, d, e))
    run_op(cx, 'where-c2', lambda: t.where(bu, u), lambda: torch.where(be, d, e))
    run_op(cx, 'where-self', lambda: t.where(bt, t), lambda: d.clone())
    # masked_fill_into
    dest = e.clone()
    val = 42.0
    o = C.call(lambda: bt.masked_fill_into(dest, val))
    cx.obs['op_instances'] += 1
    if not o['ok']:
        cx.V(f"exception:masked_fill_into:{o['exc_type']}:{o.get('where', '')}", f'masked_fill_into raised {o["exc"]}', traceback=o['tb'])
    else:
        m = same(dest, e.masked_fill(bd, val))
        if m:
            cx.V('value:masked_fill_into', f'masked_fill_into: {m}')


def project_op(cx, rng, I, t, d, ts, dtype):
    """t.project(paxes, vaxes): view of t through another pattern of the same types"""
    import torch
    ps2 = TP.gen_pattern(rng, ts, lambda: 0.0, 0.0, expand_p=0.0, structure_p=0.8)
    if rng.random() < 0.5:
        # the target pattern re-uses t's own PhysicalAxis objects (possibly nested and arranged differently)
        t2, _ = TP.realise_sharing(I, rng, ps2, dtype, t, share_p=1.0)
    else:
        t2 = TP.realise(I, ps2, dtype)
    o = C.call(lambda: t.project(t2.paxes, t2.vaxes))
    cx.obs['op_instances'] += 1
    if not o['ok']:
        cx.V(f"exception:project:{o['exc_type']}:{o.get('where', '')}", f'project raised {o["exc"]}', traceback=o['tb'])
        return
    got = o['value']
    exp = torch.empty([k._numel for k in t2.paxes], dtype=dtype)
    psz = ps2['psizes']
    # t2.paxes may have dropped size-1 axes: evaluate over the spec's axes and reshape
    full = torch.empty(psz, dtype=dtype) if psz else torch.empty((), dtype=dtype)
    for idx in itertools.product(*[range(n) for n in psz]):
        v = tuple(A.ev(e, idx, psz) for e in ps2['vaxes'])
        full[idx] = d[v] if v else d
    exp = full.reshape([k._numel for k in t2.paxes])
    m = same(got, exp)
    if m:
        cx.V('value:project', f'project onto {TP.depict(ps2)}: {m}')


def constructors(cx, rng, fggs, I, dtype):
    import torch
    n = rng.choice([1, 2, 3, 5])
    for S in ('real', 'log', 'viterbi', 'bool'):
        sr = G.make_semiring(fggs, S, dtype)
        ref = SR.Ref(S, torch.bool if S == 'bool' else dtype)
        one, zero = ref.from_int(1), ref.from_int(0)
        run_op(cx, 'eye', lambda: I.PatternedTensor.eye(n, sr), lambda: torch.where(torch.eye(n, dtype=torch.bool), one, zero))
        k = rng.randint(0, 4)
        run_op(cx, 'from_int', lambda: I.PatternedTensor.from_int(k, sr), lambda: ref.from_int(k))
    shape = [rng.randint(0, 3) for _ in range(rng.randint(0, 3))]
    v = rng.choice([0.0, 1.5, -math.inf, True])
    run_op(cx, 'full', lambda: I.PatternedTensor.full(shape, v), lambda: torch.full(shape, v))
    run_op(cx, 'full-dtype', lambda: I.PatternedTensor.full(shape, 2.5, dtype=dtype), lambda: torch.full(shape, 2.5, dtype=dtype))


def program(cx, rng, I, pool_t, pool_d):
    """2-4 random operations in lock-step on patterned and dense pools"""
    import torch
    steps = []
    for _ in range(rng.randint(2, 4)):
        i = rng.randrange(len(pool_t))
        j = rng.randrange(len(pool_t))
        a, da = pool_t[i], pool_d[i]
        b, db = pool_t[j], pool_d[j]
        op = rng.choice(['add', 'mul', 'sub', 'maximum', 'neg', 'abs', 'T', 'flatten', 'unsqueeze', 'clone', 'where', 'stackself', 'exp', 'getitem'])
        try:
            if op in ('add', 'mul', 'sub', 'maximum') and da.shape == db.shape:
                r, dr = getattr(a, op)(b), getattr(torch, op)(da, db)
            elif op == 'neg':
                r, dr = a.clone().neg_(), -da
            elif op == 'abs':
                r, dr = a.abs(), da.abs()
            elif op == 'T':
                r, dr = a.T, da.permute(tuple(reversed(range(da.ndim))))
            elif op == 'flatten':
                r, dr = a.flatten(), da.flatten()
            elif op == 'unsqueeze':
                k = rng.randint(0, da.ndim)
                r, dr = a.unsqueeze(k), da.unsqueeze(k)
            elif op == 'clone':
                r, dr = a.clone(), da.clone()
            elif op == 'where' and da.shape == db.shape:
                r, dr = a.where(a.gt(b), b), torch.where(da > db, da, db)
            elif op == 'stackself' and da.shape == db.shape and a.default == b.default:      # stack needs equal defaults (NaN never is)
                r, dr = I.stack([a, b]), torch.stack([da, db])
            elif op == 'exp':
                r, dr = a.clamp_max(3.0).exp(), da.clamp_max(3.0).exp()
            elif op == 'getitem' and da.ndim >= 1 and da.shape[0] > 0:
                k = rng.randrange(da.shape[0])
                r, dr = a[k], da[k]
            else:
                continue
        except Exception as ex:
            import traceback
            from .common import where_in_repo
            cx.V(f'exception:program:{op}:{type(ex).__name__}:{where_in_repo(ex)}', f'program step {op} raised {type(ex).__name__}: {ex}', program=steps + [op], traceback=traceback.format_exc()[-1500:])
            return
        steps.append(op)
        cx.obs['program_steps'] += 1
        m = same(A.densify_pt(r), dr, 'ulp')
        inv = A.check_invariant(r)
        if inv:
            cx.V(f'invariant:program:{op}', inv, program=steps)
            return
        if m:
            cx.V(f'value:program:{op}', f'after program {steps}: {m}', program=steps)
            return
        pool_t.append(r)
        pool_d.append(dr)


def sumproduct_under_hook(cx, rng, fggs, index):
    """grammars with patterned weights through 3 methods and backward, with the construction hook on"""
    import torch
    cls = ['nonrec', 'linear', 'nonlinear'][index % 3]
    spec = G.gen_spec(rng, cls, [rng.choice(G.FORCED)], allow_inf=False, typed=True)
    if cls != 'nonrec':
        G.scale_recursive(spec, 0.2)
        for ps in spec['patterns'].values():
            ps['physical'] = G.map_nested(ps['physical'], lambda x: x * 0.2)
            ps['default'] = ps['default'] * 0.2
    for S in ('real', 'log', 'viterbi', 'bool'):
        for method in ('fixed-point', 'newton'):
            fgg, info = G.build_fgg(fggs, spec, S, torch.float64, weight_builder=G.pattern_weight_builder(fggs, spec, S), requires_grad=S in ('real', 'log'))
            o = C.call(lambda: fggs.sum_product(fgg, method=method, semiring=G.make_semiring(fggs, S, torch.float64), kmax=30, tol=1e-6))
            cx.obs['sum_product_runs_under_hook'] += 1
            if o['ok'] and S in ('real', 'log') and o['value'].physical.requires_grad:
                C.call(lambda: o['value'].to_dense().sum().backward())
    return spec


def run_case(tier, seed, index, spec=None):
    import torch
    fggs = env.setup()
    I = env.mod('fggs.indices')
    mon = repinv.MON
    mon.install(I)
    mon.take()
    c0 = mon.constructions
    rng = G.rng_for(seed, 'C06', tier, index)
    viols = []
    obs = dict(op_instances=0, program_steps=0, sum_product_runs_under_hook=0)
    classes = ['mixed', 'mixed', 'finite', 'finite', 'zero-size', 'nan', 'float32', 'sum-product']
    cls = classes[index % len(classes)]
    dtype = torch.float32 if cls == 'float32' else torch.float64
    info = {}
    cx = Ctx(viols, obs, info)
    nontrivial = False
    key = f'{cls}{index}'
    sample = None
    if cls == 'sum-product':
        sp = sumproduct_under_hook(cx, rng, fggs, index)
        key = G.spec_key(sp)
        nontrivial = True
        sample = dict(block='sum_product on patterned weights under the construction hook', spec=G.describe(sp))
    else:
        ts, specs, tens, dens = mk_operands(rng, I, dtype, cls if cls != 'float32' else 'mixed', tier)
        info.update(types=[repr(T) for T in ts], a=TP.depict(specs[0]), b=TP.depict(specs[1]), c=TP.depict(specs[2]), dtype=str(dtype))
        info['specs'] = specs
        t, u, w = tens
        d, e, f = dens
        for x, ps in zip(tens, specs):
            inv = A.check_invariant(x)
            if inv:
                return dict(cls=cls, verdict='declined', violations=[], obs=obs, nontrivial=False, key=key)
        nontrivial = any(not all(isinstance(v, int) for v in ps['vaxes']) or len(set(map(str, ps['vaxes']))) < len(ps['vaxes']) for ps in specs)
        key = C.hkey([specs, str(dtype)])
        bt, bu = t.gt(w), u.le(w)
        bd, be = d > f, e <= f
        if cls == 'zero-size':
            empty_axis_reductions(cx, rng, I)
        if cls != 'nan':
            elementwise(cx, rng, t, u, d, e, ts)
        else:
            run_op(cx, 'add', lambda: t.add(u), lambda: d + e)
            run_op(cx, 'mul', lambda: t.mul(u), lambda: d * e)
            run_op(cx, 'sub', lambda: t.sub(u), lambda: d - e)
            # comparisons with NaN (default or stored) are False in Python and in torch alike
            for nm in ('lt', 'le', 'gt', 'ge', 'eq'):
                run_op(cx, nm, lambda: getattr(t, nm)(u), lambda: getattr(d, nm)(e))
                s_ = rng.choice([0.0, 1.0, math.nan, math.inf])
                run_op(cx, nm + '-scalar', lambda: getattr(t, nm)(s_), lambda: getattr(d, nm)(s_))
            # maximum/clamp/relu with a nan default: Python max() vs torch NaN propagation -- excluded (ASSUMPTIONS)
        unary(cx, rng, t, d, cls)
        shape_ops(cx, rng, I, t, u, d, e, specs[0])
        reshape_ops(cx, rng, t, d)
        index_ops(cx, rng, t, d)
        if cls != 'nan':
            reductions(cx, rng, t, d, bt, bd)
            bool_ops(cx, rng, bt, bu, bd, be, t, u, d, e)
        project_op(cx, rng, I, t, d, ts, dtype)
        constructors(cx, rng, fggs, I, dtype)
        # broadcasting binary ops: drop the leading dimension of u
        if d.ndim >= 2 and d.shape[0] > 0:
            u0, e0 = u[0], e[0]
            run_op(cx, 'add-broadcast', lambda: t.add(u0), lambda: d + e0)
            run_op(cx, 'mul-broadcast', lambda: t.mul(u0), lambda: d * e0)
            run_op(cx, 'where-broadcast', lambda: t.where(bt, u0), lambda: torch.where(bd, d, e0))
        if cls in ('mixed', 'finite'):
            program(cx, rng, I, [t, u, w], [d, e, f])
        sample = dict(operands=[TP.depict(p) for p in specs], types=info['types'], dtype=str(dtype))
    for b in mon.take():
        viols.append(C.viol('construction-invariant', f"a PatternedTensor constructed inside the library violates the representation invariant: {b['msg']} at {b['where']} ({b['depict']})", operands=info))
    obs['constructions_checked'] = mon.constructions - c0
    for v in viols:
        v.setdefault('cls', cls)
    return dict(cls=cls, features=[cls], verdict='violated' if viols else 'held', violations=viols, obs=obs, nontrivial=nontrivial, key=key,
                evals=max(1, obs['op_instances'] + obs['program_steps'] + obs['sum_product_runs_under_hook']), sample=sample,
                hooks=dict(post_init_hook=obs['constructions_checked']))


def worker_finish():
    mon = repinv.MON
    return dict(obs=dict(distinct_pattern_shapes_validated=len(mon.memo), deepest_axis_nesting=0), sets=dict(pattern_shapes=[str(hash(k)) for k in mon.memo]))


def finalize(tot, tier, seed):
    inc = []
    if tot['hooks'].get('post_init_hook', 0) == 0:
        inc.append('construction hook on PatternedTensor.__post_init__ never fired (FGGS_VERIF guard off?)')
    for k in ('op_instances', 'program_steps', 'sum_product_runs_under_hook'):
        if tot['obs'].get(k, 0) == 0:
            inc.append(f'{k} never observed')
    w = tot['obs'].get('type_mismatch_warnings', 0)
    if w > 0.02 * max(1, tot['obs'].get('op_instances', 1)):
        inc.append(f'{w} index-type-mismatch warnings: generator produced ill-typed operands')
    return dict(constructions_checked=tot['hooks'].get('post_init_hook', 0)), inc
