"""C01 — sum-product of a non-recursive FGG equals its definition.

Boundary monitor on sum_product / sum_products / singleton_fgg->sum_product; oracle = exact
brute-force enumeration (oracle/sumproduct_ref.exact_tables)."""
import math
from . import common as C
from ..core import env
from ..gen import fggspec as G
from ..oracle import sumproduct_ref as R
from ..monitor.hooks import Hooks

PROPERTY = 'C01'
RULE = ('case = one generated non-recursive FGG spec (stratified over the structural features of the '
        'statement x dense/patterned weights x float32/float64), evaluated under 4 semirings x '
        '{default, fixed-point, newton, linear} and through sum_products (every nonterminal) and '
        'singleton_fgg; expected value by exact enumeration of all assignments of every rule. '
        'non-trivial = the expected start tensor has a non-zero entry and some rule sums out a node; '
        'distinct = distinct spec hashes')
ASSUMPTIONS = ['rules have pairwise distinct external nodes', 'weights in [0,inf], moderate magnitude (0.05..2) plus exact 0 and inf',
               'oracle: Fractions/booleans in pure Python; Log = log of the exact real value',
               'float32 compared with rtol 2e-4, float64 with rtol 1e-9, identical positions of 0/-inf/inf']
SEMIRINGS = ('real', 'log', 'viterbi', 'bool')
METHODS = (None, 'fixed-point', 'newton', 'linear')
NF = len(G.FORCED)


def plan(tier, seed):
    return dict(n=1224 if tier == 'quick' else 30000, budget_s=75 if tier == 'quick' else 840, case_timeout=120)


def gen(tier, seed, index):
    import torch
    rng = G.rng_for(seed, 'C01', tier, index)
    forced = [G.FORCED[index % NF]]
    typed = (index // NF) % 3 == 2
    f32 = (index // (3 * NF)) % 4 == 3
    if tier == 'thorough':
        mn, me = 6, 5
        if rng.random() < 0.5:
            forced.append(rng.choice(G.FORCED))
    else:
        mn, me = 5, 4
    if forced == ['plain'] and not typed:
        # the 'plain' stratum is spent on broadcast-heavy grammars (values that are stride-0 tensors)
        spec = G.gen_broadcast_spec(rng, allow_inf=rng.random() < 0.3)
        return spec, dict(typed=False, dtype='float32' if f32 else 'float64', forced=['stride0-nonterminals'])
    if forced == ['many-rules'] and not typed and index % 2 == 0:
        # several sibling nonterminals under the start rule with one-way dependencies that skip a sibling
        return G.gen_sibling_dependency_spec(rng), dict(typed=False, dtype='float32' if f32 else 'float64', forced=['sibling-dependencies'])
    spec = G.gen_spec(rng, 'nonrec', forced, max_nodes=mn, max_edges=me, typed=typed,
                      allow_inf=True)
    if index % 7 == 3 and spec['rules']:
        # the same rule added twice (a copy with the same node and edge ids): rules are a multiset, both count
        import copy
        j = rng.randrange(len(spec['rules']))
        if spec['rules'][j].get('dup_of') is None:
            spec['rules'].append(dict(copy.deepcopy(spec['rules'][j]), dup_of=j))
            forced = forced + ['rule-added-twice']
    return spec, dict(typed=typed, dtype='float32' if f32 else 'float64', forced=forced)


def classify(semiring, obs, exp):
    """mechanism signature of a value mismatch"""
    import torch
    try:
        o = obs.to(torch.float64)
        e = exp.to(torch.float64)
        if o.shape == e.shape:
            neg = torch.isneginf(e) & torch.isfinite(o) & (o < -1e37)
            if neg.any():
                return f'value:{semiring}:finite-most-negative-instead-of-neginf'
            if torch.isnan(o).any():
                return f'value:{semiring}:nan'
            if not torch.equal(torch.isinf(o), torch.isinf(e)):
                return f'value:{semiring}:infinite-entries-differ'
            if not torch.equal(o == 0, e == 0) and semiring in ('real', 'bool'):
                return f'value:{semiring}:support-differs'
    except Exception:
        pass
    return f'value:{semiring}:mismatch'


def check_spec(spec, meta, hooks=None, index=0):
    import torch
    fggs = env.setup()
    dtype = torch.float32 if meta['dtype'] == 'float32' else torch.float64
    viols = []
    obs = dict(library_calls=0, entries_compared=0)
    nontrivial = False
    for S in SEMIRINGS:
        try:
            tabs = R.exact_tables(spec, S)
        except ValueError:
            return dict(verdict='declined', violations=[], obs=obs, nontrivial=False)
        ref = {n: torch.tensor(R.table_to_nested(spec, n, tabs[n]),
                               dtype=torch.bool if S == 'bool' else torch.float64).reshape(G.shape_of(spec, spec['nonterminals'][n]))
               for n in spec['nonterminals']}
        zero = {'real': 0.0, 'log': -math.inf, 'viterbi': -math.inf, 'bool': False}[S]
        if S == 'real' and (ref[spec['start']] != zero).any() and any(len(r['ext']) < len(r['nodes']) for r in spec['rules']):
            nontrivial = True
        builder = G.pattern_weight_builder(fggs, spec, S) if meta['typed'] else None
        for method in METHODS:
            fgg, info = G.build_fgg(fggs, spec, S, dtype, weight_builder=builder, start_via_setter=index % 4 == 2)
            sr = G.make_semiring(fggs, S, dtype)
            kw = dict(semiring=sr)
            if method:
                kw['method'] = method
            if method is None:
                out = C.call(lambda: {k.name: v.to_dense() for k, v in fggs.sum_products(fgg, **kw).items()})
            else:
                out = C.call(lambda: {spec['start']: fggs.sum_product(fgg, **kw).to_dense()})
            obs['library_calls'] += 1
            ctx = dict(semiring=S, method=method or 'default', dtype=meta['dtype'], typed=meta['typed'])
            if not out['ok']:
                viols.append(C.viol(f"exception:{S}:{out['exc_type']}:{out.get('where', '')}",
                                    f"sum_product raised {out['exc']}", context=ctx, traceback=out['tb']))
                continue
            res = out['value']
            names = list(spec['nonterminals']) if method is None else [spec['start']]
            for n in names:
                if n not in res:
                    viols.append(C.viol(f'missing-nonterminal:{S}', f'sum_products has no entry for nonterminal {n}', context=ctx))
                    continue
                obs['entries_compared'] += 1
                msg = C.close_tensor(res[n], ref[n], 'bool' if S == 'bool' else meta['dtype'])
                if msg is None and S in ('real',) and C.zero_positions_differ(res[n], ref[n]) and meta['dtype'] == 'float64':
                    msg = f'zero positions differ: obs={res[n].tolist()} exp={ref[n].tolist()}'
                if msg:
                    viols.append(C.viol(classify(S, res[n], ref[n]), f'{n}: {msg}', context=ctx,
                                        expected=ref[n].tolist(), observed=res[n].tolist()))
                if S != 'bool' and res[n].dtype != dtype:
                    viols.append(C.viol(f'dtype:{S}', f'result dtype {res[n].dtype} != {dtype}', context=ctx))
        # singleton_fgg(factor graph) path on the first terminal-only rule
        if not meta['typed']:
            v = singleton_check(fggs, spec, S, dtype, meta, obs)
            if v:
                viols.append(v)
    return dict(verdict='violated' if viols else 'held', violations=viols, obs=obs, nontrivial=nontrivial)


def singleton_check(fggs, spec, S, dtype, meta, obs):
    import torch
    rule = next((r for r in spec['rules'] if r['edges'] and all(l in spec['terminals'] for l, _ in r['edges'])), None)
    if rule is None:
        return None
    sub = dict(domains=spec['domains'], terminals={l: spec['terminals'][l] for l, _ in rule['edges']},
               nonterminals={'S0': [rule['nodes'][v] for v in rule['ext']]}, start='S0',
               rules=[dict(rule, lhs='S0')], weights={l: spec['weights'][l] for l, _ in rule['edges']},
               wdomain=spec['wdomain'])
    tabs = R.exact_tables(sub, S)
    ref = torch.tensor(R.table_to_nested(sub, 'S0', tabs['S0']), dtype=torch.bool if S == 'bool' else torch.float64)
    ref = ref.reshape(G.shape_of(sub, sub['nonterminals']['S0']))
    nl = {l: fggs.NodeLabel(l) for l in spec['domains']}
    fg = fggs.FactorGraph()
    nodes = [fggs.Node(nl[l]) for l in rule['nodes']]
    for v in nodes:
        fg.add_node(v)
    els = {}
    for lab, att in rule['edges']:
        if lab not in els:
            els[lab] = fggs.EdgeLabel(lab, [nl[l] for l in spec['terminals'][lab]], is_terminal=True)
        fg.add_edge(fggs.Edge(els[lab], [nodes[v] for v in att]))
    fg.ext = [nodes[v] for v in rule['ext']]
    for l, s in spec['domains'].items():
        fg.add_domain(nl[l], fggs.RangeDomain(s))
    for lab, e in els.items():
        w = torch.tensor(G.weights_in(spec, lab, S), dtype=torch.bool if S == 'bool' else dtype)
        fg.add_factor(e, fggs.FiniteFactor([fg.domains[l.name] for l in e.type], w))
    out = C.call(lambda: fggs.sum_product(fggs.singleton_fgg(fg), semiring=G.make_semiring(fggs, S, dtype)).to_dense())
    obs['library_calls'] += 1
    obs['singleton_fgg_calls'] = obs.get('singleton_fgg_calls', 0) + 1
    ctx = dict(semiring=S, method='singleton_fgg', dtype=meta['dtype'])
    if not out['ok']:
        return C.viol(f"exception:{S}:{out['exc_type']}:{out.get('where', '')}", f"singleton_fgg/sum_product raised {out['exc']}",
                      context=ctx, traceback=out['tb'])
    msg = C.close_tensor(out['value'], ref, 'bool' if S == 'bool' else meta['dtype'])
    if msg:
        return C.viol(classify(S, out['value'], ref), f'singleton_fgg: {msg}', context=ctx)
    return None


def run_case(tier, seed, index, spec=None, meta=None):
    if spec is None:
        spec, meta = gen(tier, seed, index)
    methods_seen = []
    with Hooks() as h:
        fggs = env.setup()
        SP = env.mod('fggs.sum_product')

        def on_call(a, k):
            methods_seen.append(a[2]['method'] if len(a) > 2 and isinstance(a[2], dict) else '?')
        h.spy(SP.SumProduct, 'forward', on_call=on_call, key='SumProduct.forward', static=True)
        res = check_spec(spec, meta, h, index)
        hooks = dict(h.count)
    feats = sorted(G.features_of(spec)) + [meta['dtype'], 'patterned' if meta['typed'] else 'dense'] + [f for f in meta['forced'] if f == 'stride0-nonterminals']
    res.update(cls='nonrec-' + ('patterned' if meta['typed'] else 'dense'), features=feats, key=G.spec_key(spec),
               hooks=hooks, sample=dict(spec=G.describe(spec), meta=meta))
    res['obs']['scc_method_one-step'] = sum(1 for m in methods_seen if m == 'one-step')
    res['obs']['scc_method_other'] = sum(1 for m in methods_seen if m != 'one-step')
    for v in res['violations']:
        v['spec'] = spec
        v['meta'] = meta
    return res


def replay(rep):
    if 'spec' in rep:
        return run_case(rep['tier'], rep['seed'], rep['index'], rep['spec'], rep['meta'])
    return run_case(rep['tier'], rep['seed'], rep['index'])


REQUIRED_FEATURES = ['edgeless-internal', 'edgeless-ext', 'edge-twice', 'nullary', 'nt-without-rules',
                     'unreachable-nt', 'start-arity', 'zero-weight', 'inf-weight', 'no-edges-rule',
                     'size1-domain', 'patterned', 'dense', 'float32', 'float64', 'stride0-nonterminals']


def finalize(tot, tier, seed):
    inc = []
    for f in REQUIRED_FEATURES:
        if tot['features'].get(f, 0) == 0:
            inc.append(f'required input feature never generated: {f}')
    if tot['hooks'].get('SumProduct.forward', 0) == 0:
        inc.append('hook SumProduct.forward never reached')
    return dict(semirings=list(SEMIRINGS), methods=[m or 'default' for m in METHODS]), inc
