"""C05 — factorization preserves the grammar's meaning and never widens a rule.

Boundary monitor on factorize_rule / factorize_hrg / factorize_fgg; oracles: independent inliner
on plain-data hypergraphs + isomorphism checker, name/width/label checks, sum-product of both
grammars against each other and against the reference; spy hook on tree_decomposition proving
that the requested method is the one that ran."""
import math
from . import common as C
from ..core import env
from ..gen import fggspec as G
from ..oracle import sumproduct_ref as R
from ..oracle import iso
from ..monitor.hooks import Hooks

PROPERTY = 'C05'
RULE = ('case = one generated FGG spec (rules with isolated nodes, several components, nullary and repeated-attachment edges, externals '
        'anywhere, up to 7 nodes / 6 edges; a stratum whose terminal names look like fresh names "S_1"), factorized through factorize_rule '
        '(labels None / given), factorize_hrg and factorize_fgg under min_fill, quickbb and acb; evaluations = specs; non-trivial = some rule '
        'was split into >= 2 rules; distinct = spec hashes')
ASSUMPTIONS = ['rules have pairwise distinct external nodes', 'sum-product compared on non-recursive and (Bool/Viterbi/Real) recursive specs with rtol 1e-8']
METHODS = ('min_fill', 'quickbb', 'acb')
CLASSES = ('nonrec', 'nonrec', 'linear', 'nonlinear')


def plan(tier, seed):
    return dict(n=600 if tier == 'quick' else 36000, budget_s=80 if tier == 'quick' else 840, case_timeout=200)


def gen(tier, seed, index):
    rng = G.rng_for(seed, 'C05', tier, index)
    cls = CLASSES[index % len(CLASSES)]
    pool = ['edgeless-internal', 'nullary', 'edge-twice', 'jpre-shape', 'edgeless-ext', 'start-arity', 'shared-factor', 'many-rules', 'plain', 'no-edges-rule']
    forced = [pool[(index // 4) % len(pool)]]
    big = (index // 40) % 2 == 1
    spec = G.gen_spec(rng, cls, forced, allow_inf=False, grid=True, wdomain='log' if cls != 'nonrec' else 'real',
                      max_nodes=7 if big else 5, max_edges=6 if big else 4)
    clash = index % 7 == 3
    return spec, dict(cls=cls, forced=forced, clash=clash, big=big)


def plain_rule(rule):
    return iso.from_graph(rule.rhs)


def inline_all(root, fresh_rules):
    """replace every edge labelled by a fresh nonterminal (dict label-key -> plain rhs) until none is left"""
    h = root
    for _ in range(200):
        for i, (lab, att) in enumerate(h['edges']):
            if lab in fresh_rules:
                h = iso.replace(h, i, fresh_rules[lab])
                break
        else:
            return h
    raise ValueError('inlining does not terminate (fresh nonterminals are recursive)')


def lkey(l):
    return (l.name, l.is_terminal, tuple(x.name for x in l.type))


def judge_rules(orig_rules, new_rules, known_labels, viols, ctx, obs):
    """orig_rules: list of HRGRule; new_rules: list of HRGRule produced from them.
    known_labels: set of label names that existed before.  Returns number of splits."""
    by_lhs = {}
    for r in new_rules:
        by_lhs.setdefault(lkey(r.lhs), []).append(r)
    orig_lhs = {lkey(r.lhs) for r in orig_rules}
    fresh = {k: v for k, v in by_lhs.items() if k not in orig_lhs}
    # fresh names
    for k in fresh:
        if k[0] in known_labels:
            viols.append(C.viol('fresh-name-collides', f'fresh nonterminal {k[0]} collides with an existing label', context=ctx))
        if k[1]:
            viols.append(C.viol('fresh-label-terminal', f'fresh label {k[0]} is a terminal', context=ctx))
        if len(fresh[k]) != 1:
            viols.append(C.viol('fresh-nonterminal-not-unique-rule', f'fresh nonterminal {k[0]} has {len(fresh[k])} rules', context=ctx))
    names = {}
    for r in new_rules:
        for l in [r.lhs] + [e.label for e in r.rhs.edges()]:
            if l.name in names and names[l.name] != lkey(l):
                viols.append(C.viol('label-name-two-labels', f'name {l.name} denotes two labels in the factorized rules', context=ctx))
                return 0
            names[l.name] = lkey(l)
    fresh_plain = {k: plain_rule(v[0]) for k, v in fresh.items()}
    # every original rule must be matched by exactly one inlined new rule of the same lhs
    splits = 0
    for k in orig_lhs:
        olds = [r for r in orig_rules if lkey(r.lhs) == k]
        news = by_lhs.get(k, [])
        if len(olds) != len(news):
            viols.append(C.viol('rule-count', f'{k[0]}: {len(olds)} rules before, {len(news)} after', context=ctx))
            continue
        try:
            inl = [inline_all(plain_rule(r), fresh_plain) for r in news]
        except ValueError as e:
            viols.append(C.viol('inlining-failed', f'{k[0]}: {e}', context=ctx))
            continue
        unmatched = list(range(len(inl)))
        for o in olds:
            po = plain_rule(o)
            hit = next((j for j in unmatched if iso.isomorphic(po, inl[j])), None)
            obs['iso_checks'] += 1
            if hit is None:
                viols.append(C.viol('not-isomorphic-after-inlining', f'rule of {k[0]} with {len(po["nodes"])} nodes / {len(po["edges"])} edges is not reproduced by inlining; '
                                    f'candidates have {[ (len(x["nodes"]), len(x["edges"])) for x in inl]}', context=ctx, original=po))
            else:
                unmatched.remove(hit)
                # width: every new rule reachable from news[hit] has at most as many nodes
                lim = len(po['nodes'])
                stack, seen = [news[hit]], set()
                while stack:
                    r = stack.pop()
                    if len(list(r.rhs.nodes())) > lim:
                        viols.append(C.viol('rule-wider-than-original', f'new rule {r.lhs.name} has {len(list(r.rhs.nodes()))} nodes, original {lim}', context=ctx))
                    for e in r.rhs.edges():
                        kk = lkey(e.label)
                        if kk in fresh and kk not in seen:
                            seen.add(kk)
                            stack.append(fresh[kk][0])
                if seen:
                    splits += 1
    return splits


def check_spec(spec, meta, index):
    import torch
    fggs = env.setup()
    F = env.mod('fggs.factorize')
    viols = []
    obs = dict(factorize_calls=0, iso_checks=0, rules_split=0, sum_product_comparisons=0, method_observed_min_fill=0, method_observed_quickbb=0, method_observed_acb=0)
    rename = None
    if meta['clash']:
        # terminals literally called like the fresh names factorize would pick
        nts = list(spec['nonterminals'])
        ts = list(spec['terminals'])
        rename = {}
        for i, t in enumerate(ts):
            rename[t] = f'{nts[i % len(nts)]}_{1 + i // len(nts)}'
    rec = bool(G.recursive_nts(spec))
    ref = {}
    semis = ('real', 'log', 'viterbi', 'bool') if not rec else ('viterbi', 'bool')
    for S in semis:
        r, info = R.reference_tables(spec, S)
        if r is not None:
            ref[S] = r
    methods_seen = []
    with Hooks() as h:
        def on_call(a, k):
            methods_seen.append(k.get('method', a[1] if len(a) > 1 else 'min_fill'))
        h.spy(F, 'tree_decomposition', on_call=on_call, key='tree_decomposition')
        for method in METHODS:
            ctx = dict(method=method, clash=meta['clash'])
            # ---- factorize_rule on every rule, labels=None and labels given
            fgg, info = G.build_fgg(fggs, spec, 'real', torch.float64, rename=rename)
            for ri, rule in info['rules'].items():
                for given in (False, True):
                    labels = set(fgg.edge_labels()) if given else None
                    before = iso.from_graph(rule.rhs)
                    methods_seen.clear()
                    out = C.call(fggs.factorize_rule, rule, method=method, labels=labels) if given else C.call(fggs.factorize_rule, rule, method=method)
                    obs['factorize_calls'] += 1
                    c2 = dict(ctx, entry='factorize_rule', rule=ri, labels_given=given)
                    if not out['ok']:
                        viols.append(C.viol(f"exception:factorize_rule:{out['exc_type']}:{out.get('where', '')}", f'factorize_rule raised {out["exc"]}', context=c2, traceback=out['tb']))
                        continue
                    if methods_seen != [method]:
                        viols.append(C.viol('method-not-honoured:factorize_rule', f'requested {method}, tree_decomposition received {methods_seen}', context=c2))
                    for m_ in methods_seen:
                        obs['method_observed_' + str(m_)] = obs.get('method_observed_' + str(m_), 0) + 1
                    if iso.from_graph(rule.rhs) != before:
                        viols.append(C.viol('input-rule-modified', 'factorize_rule changed its input rule', context=c2))
                    known = {l.name for l in (labels_before(fgg) if given else [rule.lhs] + [e.label for e in rule.rhs.edges()])}
                    obs['rules_split'] += judge_rules([rule], out['value'], known, viols, c2, obs)
                    if given:
                        newnames = {r.lhs.name for r in out['value']} - {rule.lhs.name}
                        if not newnames <= {l.name for l in labels}:
                            viols.append(C.viol('labels-argument-not-extended', 'fresh labels were not added to the labels argument', context=c2))
            # ---- factorize_hrg / factorize_fgg
            for entry in ('factorize_hrg', 'factorize_fgg'):
                fgg, info = G.build_fgg(fggs, spec, 'real', torch.float64, rename=rename)
                methods_seen.clear()
                fn = getattr(fggs, entry)
                out = C.call(fn, fgg, method=method)
                obs['factorize_calls'] += 1
                c2 = dict(ctx, entry=entry)
                if not out['ok']:
                    viols.append(C.viol(f"exception:{entry}:{out['exc_type']}:{out.get('where', '')}", f'{entry} raised {out["exc"]}', context=c2, traceback=out['tb']))
                    continue
                new = out['value']
                if any(m_ != method for m_ in methods_seen) or len(methods_seen) != len(spec['rules']):
                    viols.append(C.viol(f'method-not-honoured:{entry}', f'requested {method}, tree_decomposition received {sorted(set(methods_seen))} ({len(methods_seen)} calls for {len(spec["rules"])} rules)', context=c2))
                for m_ in methods_seen:
                    obs['method_observed_' + str(m_)] = obs.get('method_observed_' + str(m_), 0) + 1
                if lkey(new.start) != lkey(fgg.start):
                    viols.append(C.viol('start-differs', f'start {new.start.name} != {fgg.start.name}', context=c2))
                if {lkey(l) for l in new.terminals()} - {lkey(l) for l in fgg.terminals()} or \
                   {lkey(e.label) for r in new.all_rules() for e in r.rhs.edges() if e.label.is_terminal} != {lkey(e.label) for r in fgg.all_rules() for e in r.rhs.edges() if e.label.is_terminal}:
                    viols.append(C.viol('terminals-differ', 'terminal labels of the factorized grammar differ', context=c2))
                known = {l.name for l in fgg.edge_labels()}
                obs['rules_split'] += judge_rules(fgg.all_rules(), new.all_rules(), known, viols, c2, obs)
                if entry == 'factorize_fgg':
                    if set(new.factors) != set(fgg.factors) or any(not (new.factors[k] == fgg.factors[k]) for k in fgg.factors) or \
                       set(new.domains) != set(fgg.domains) or any(new.domains[k] != fgg.domains[k] for k in fgg.domains):
                        viols.append(C.viol('interpretation-differs', 'factors/domains of the factorized FGG differ', context=c2))
                        continue
                    # sum-products
                    for S in semis:
                        if S not in ref:
                            continue
                        f1, _ = G.build_fgg(fggs, spec, S, torch.float64, rename=rename)
                        o1 = C.call(fggs.factorize_fgg, f1, method=method)
                        if not o1['ok']:
                            continue
                        sr = G.make_semiring(fggs, S, torch.float64)
                        o2 = C.call(lambda: fggs.sum_product(o1['value'], semiring=sr, method='fixed-point', tol=1e-12, kmax=5000).to_dense())
                        obs['sum_product_comparisons'] += 1
                        c3 = dict(c2, semiring=S)
                        if not o2['ok']:
                            viols.append(C.viol(f"exception:sum_product-after-factorize:{o2['exc_type']}:{o2.get('where', '')}", f'sum_product of the factorized grammar raised {o2["exc"]}', context=c3, traceback=o2['tb']))
                            continue
                        exp = torch.tensor(ref[S][spec['start']], dtype=torch.bool if S == 'bool' else torch.float64).reshape(o2['value'].shape)
                        msg = C.close_tensor(o2['value'], exp, 'bool' if S == 'bool' else 'float64', rtol=1e-8, atol=1e-9)
                        if msg:
                            viols.append(C.viol(f'sum-product-changed:{S}', msg, context=c3))
        hooks = dict(h.count)
    return dict(verdict='violated' if viols else 'held', violations=viols, obs=obs, nontrivial=obs['rules_split'] > 0, hooks=hooks)


def labels_before(fgg):
    return list(fgg.edge_labels())


def run_case(tier, seed, index, spec=None, meta=None):
    if spec is None:
        spec, meta = gen(tier, seed, index)
    res = check_spec(spec, meta, index)
    feats = sorted(G.features_of(spec)) + (['terminal-names-like-fresh-names'] if meta['clash'] else []) + (['big-rules'] if meta['big'] else [])
    res.update(cls=meta['cls'], features=feats, key=G.spec_key(spec) + str(meta['clash']), sample=dict(spec=G.describe(spec), meta=meta))
    for v in res['violations']:
        v['spec'] = spec
        v['meta'] = meta
    return res


def replay(rep):
    if 'spec' in rep:
        return run_case(rep['tier'], rep['seed'], rep['index'], rep['spec'], rep['meta'])
    return run_case(rep['tier'], rep['seed'], rep['index'])


def finalize(tot, tier, seed):
    inc = []
    if tot['hooks'].get('tree_decomposition', 0) == 0:
        inc.append('hook tree_decomposition never reached')
    for m in METHODS:
        if tot['obs'].get('method_observed_' + m, 0) == 0:
            inc.append(f'tree_decomposition never observed running method {m}')
    for k in ('iso_checks', 'rules_split', 'sum_product_comparisons'):
        if tot['obs'].get(k, 0) == 0:
            inc.append(f'{k} never observed')
    for f in ('edgeless-internal', 'terminal-names-like-fresh-names', 'big-rules'):
        if tot['features'].get(f, 0) == 0:
            inc.append(f'feature {f} never generated')
    return {}, inc
