"""Plain-data FGG specs: stratified random generator, feature analyser, realisation through
the public fggs API.  A spec is JSON-serialisable; it is what oracles read and what replay
files contain.

spec = {
  'domains':      {'L0': 2, ...}                    node label -> domain size
  'terminals':    {'f0': ['L0','L1'], ...}          name -> type (list of node labels)
  'nonterminals': {'S': [], 'X1': ['L0'], ...}
  'start':        'S',
  'rules': [ {'lhs': 'X1', 'nodes': ['L0','L1'], 'ext': [0], 'edges': [['f0',[0,1]], ['X1',[0]]]} ],
  'weights':      {'f0': nested list of floats},     in 'wdomain'
  'wdomain':      'real' | 'log'
}
"""
import itertools, math, random

CLASSES = ('nonrec', 'linear', 'nonlinear', 'mixed', 'unitcycle')

# features forced round-robin by the stratum number (each is also *measured* on the result)
FORCED = ('edgeless-internal', 'edgeless-ext', 'edge-twice', 'nullary', 'no-edges-rule',
          'nt-without-rules', 'unreachable-nt', 'start-arity', 'zero-weight', 'inf-weight',
          'size1-domain', 'shared-factor', 'factor-twice-in-rule', 'jpre-shape', 'ext-also-attached-twice',
          'many-rules', 'plain', 'unit-base', 'pass-through-self-rule')


def rng_for(*parts):
    return random.Random(':'.join(map(str, parts)))


def shape_of(spec, typ):
    return [spec['domains'][l] for l in typ]


def nested(shape, fn):
    if not shape:
        return fn()
    return [nested(shape[1:], fn) for _ in range(shape[0])]


def map_nested(x, fn):
    if isinstance(x, list):
        return [map_nested(y, fn) for y in x]
    return fn(x)


def flat(x):
    if isinstance(x, list):
        for y in x:
            yield from flat(y)
    else:
        yield x


def get_nested(x, idx):
    for i in idx:
        x = x[i]
    return x


# ------------------------------------------------------------------------------ generator

def gen_spec(rng, cls='nonrec', forced=(), max_nodes=5, max_edges=4, wdomain='real', grid=False,
             allow_inf=True, max_nts=4, max_dom=3, typed=False, max_scc=3):
    forced = set(forced)
    nlab = rng.randint(1, 3)
    ltypes = None
    if typed:
        from . import types_patterns as TP
        ltypes = {f'L{i}': TP.gen_type(rng, depth=2, max_numel=6) for i in range(nlab)}
        if 'size1-domain' in forced:
            ltypes[rng.choice(sorted(ltypes))] = ('atom', 1)
        domains = {l: TP.t_numel(T) for l, T in ltypes.items()}
        max_nodes = min(max_nodes, 4)
    else:
        domains = {f'L{i}': rng.randint(1, max_dom) for i in range(nlab)}
    if 'size1-domain' in forced:
        if not typed:
            domains[rng.choice(sorted(domains))] = 1
    else:
        # keep at least one label with size >= 2
        if all(s == 1 for s in domains.values()):
            if typed:
                ltypes['L0'] = ('atom', rng.randint(2, 4))
                domains['L0'] = ltypes['L0'][1]
            else:
                domains['L0'] = rng.randint(2, max_dom)
    labs = sorted(domains)

    # ---- nonterminals and SCC plan
    if cls == 'nonrec':
        nnt = rng.randint(1, max_nts)
    elif cls == 'mixed':
        nnt = rng.randint(3, max(3, max_nts))
    else:
        nnt = rng.randint(1, min(max_scc, max_nts))
        if max_scc > 3 and rng.random() < 0.6:
            nnt = rng.randint(3, min(max_scc, max_nts))
    names = ['S'] + [f'X{i}' for i in range(1, nnt)]
    nts = {}
    for i, nm in enumerate(names):
        if i == 0:
            ar = rng.randint(1, 2) if 'start-arity' in forced else (0 if rng.random() < 0.8 else 1)
        else:
            ar = rng.choice([0, 1, 1, 2])
        nts[nm] = [rng.choice(labs) for _ in range(ar)]
    # partition names (in order) into consecutive SCC groups with kinds
    groups = []   # list of (members, kind)
    if cls == 'nonrec':
        groups = [([nm], 'acyclic') for nm in names]
    elif cls in ('linear', 'nonlinear', 'unitcycle'):
        kind = {'linear': 'linear', 'nonlinear': 'nonlinear', 'unitcycle': 'unit'}[cls]
        # optionally a non-recursive start above the recursive SCC
        if nnt >= 2 and rng.random() < 0.6:
            groups = [([names[0]], 'acyclic'), (names[1:], kind)]
        else:
            groups = [(names, kind)]
    else:  # mixed
        i = 0
        kinds = ['acyclic', 'linear', 'nonlinear']
        while i < nnt:
            k = rng.choice(kinds) if i > 0 else rng.choice(['acyclic', 'acyclic', 'linear'])
            size = 1 if k == 'acyclic' else rng.randint(1, min(2, nnt - i))
            groups.append((names[i:i + size], k))
            i += size
        if all(k == 'acyclic' for _, k in groups):
            groups[-1] = (groups[-1][0], 'linear')
    gi_of = {nm: gi for gi, (ms, _) in enumerate(groups) for nm in ms}
    for ms, k in groups:
        if k == 'unit':          # a pure cycle X -> Y needs lhs and rhs of the same type
            for m in ms[1:]:
                nts[m] = list(nts[ms[0]])

    without_rules = set()
    unreachable = set()
    if 'nt-without-rules' in forced:
        nm = f'X{len(names)}'
        names.append(nm)
        nts[nm] = [rng.choice(labs) for _ in range(rng.choice([0, 1]))]
        without_rules.add(nm)
        groups.append(([nm], 'acyclic'))
        gi_of[nm] = len(groups) - 1
    if 'unreachable-nt' in forced:
        nm = f'X{len(names)}'
        names.append(nm)
        nts[nm] = [rng.choice(labs) for _ in range(rng.choice([0, 1]))]
        unreachable.add(nm)
        groups.append(([nm], 'acyclic'))
        gi_of[nm] = len(groups) - 1

    terminals = {}
    rules = []

    def new_terminal(typ):
        nm = f'f{len(terminals)}'
        terminals[nm] = list(typ)
        return nm

    def make_rule(lhs, nt_edges, n_term=None, opts=()):
        """nt_edges: list of nonterminal names to place on the rhs."""
        nodes = []   # labels
        ext = []
        for l in nts[lhs]:
            nodes.append(l)
            ext.append(len(nodes) - 1)
        forbidden = set()
        if 'edgeless-ext' in opts and ext:
            forbidden.add(rng.choice(ext))
        n_int = rng.randint(0, max(0, min(3, max_nodes - len(nodes))))
        if 'no-edges-rule' in opts:
            n_int = rng.randint(0, 2)
        for _ in range(n_int):
            nodes.append(rng.choice(labs))
        if 'edgeless-internal' in opts:
            nodes.append(rng.choice(labs))
            forbidden.add(len(nodes) - 1)
        if 'ext-shuffle' in opts and len(nodes) > 1:
            perm = list(range(len(nodes)))
            rng.shuffle(perm)   # perm[old] = new
            new_nodes = [None] * len(nodes)
            for old, new in enumerate(perm):
                new_nodes[new] = nodes[old]
            nodes = new_nodes
            ext = [perm[v] for v in ext]
            forbidden = {perm[v] for v in forbidden}

        def pick(label, prefer=None):
            cands = [i for i, l in enumerate(nodes) if l == label and i not in forbidden]
            if prefer:
                p = [i for i in cands if i in prefer]
                if p and rng.random() < 0.7:
                    cands = p
            if cands and (len(nodes) >= max_nodes or rng.random() < 0.85):
                return rng.choice(cands)
            nodes.append(label)
            return len(nodes) - 1

        edges = []
        if 'no-edges-rule' in opts:
            return dict(lhs=lhs, nodes=nodes, ext=ext, edges=edges)
        for nt in nt_edges:
            att = [pick(l) for l in nts[nt]]
            edges.append([nt, att])
        if n_term is None:
            n_term = rng.randint(0 if edges else 1, max(1, max_edges - len(edges)))
        if 'jpre-shape' in opts:
            n_term = max(n_term, 3 - len(edges))
        for k in range(n_term):
            reuse = [t for t in terminals if all(l in labs for l in terminals[t])]
            if reuse and (rng.random() < 0.35 or ('shared-factor' in opts and k == 0)):
                t = rng.choice(reuse)
                att = [pick(l) for l in terminals[t]]
                edges.append([t, att])
                if 'factor-twice-in-rule' in opts and k == 0:
                    edges.append([t, [pick(l) for l in terminals[t]]])
            else:
                ar = rng.choice([0, 1, 1, 2, 2, 2, 3]) if 'nullary' not in opts or k > 0 else 0
                avail = [i for i in range(len(nodes)) if i not in forbidden]
                if not avail and ar > 0:
                    nodes.append(rng.choice(labs))
                    avail = [len(nodes) - 1]
                if 'edge-twice' in opts and k == 0 and avail:
                    ar = max(ar, 2)
                    v = rng.choice(avail)
                    att = [v, v] + [rng.choice(avail) for _ in range(ar - 2)]
                    rng.shuffle(att)
                elif 'ext-also-attached-twice' in opts and k == 0 and [e for e in ext if e not in forbidden]:
                    v = rng.choice([e for e in ext if e not in forbidden])
                    att = [v, v]
                else:
                    att = [rng.choice(avail) for _ in range(ar)]
                t = new_terminal([nodes[i] for i in att])
                edges.append([t, att])
        if 'jpre-shape' in opts and len(edges) >= 3:
            # a node private to the first edge: new internal node attached only there
            nodes.append(rng.choice(labs))
            v = len(nodes) - 1
            t = new_terminal([nodes[v]] + [nodes[i] for i in edges[0][1][:1]])
            edges.insert(0, [t, [v] + edges[0][1][:1]])
        if rng.random() < 0.5:
            rng.shuffle(edges)
        return dict(lhs=lhs, nodes=nodes, ext=ext, edges=edges)

    rule_opts_pool = [f for f in forced if f in (
        'edgeless-internal', 'edgeless-ext', 'edge-twice', 'nullary', 'no-edges-rule',
        'shared-factor', 'factor-twice-in-rule', 'jpre-shape', 'ext-also-attached-twice')]

    def lower(nm):
        return [m for m in names if gi_of[m] > gi_of[nm] and m not in unreachable]

    first_rule = True
    for gi, (members, kind) in enumerate(groups):
        for mi, nm in enumerate(members):
            if nm in without_rules:
                continue
            nrules = rng.randint(1, 3 if 'many-rules' not in forced else 4)
            plans = []
            if kind == 'acyclic':
                for _ in range(nrules):
                    low = lower(nm)
                    k = min(len(low), rng.choice([0, 1, 1, 2]))
                    plans.append([rng.choice(low) for _ in range(k)])
                if nm == names[0] and lower(nm) and not any(plans):
                    plans[0] = [lower(nm)[0]]
                # make sure every later (reachable) NT is used by somebody: the NT right after us
                nxt = [m for m in names if gi_of[m] == gi + 1 and m not in unreachable]
                if nxt and nxt[0] not in plans[0]:
                    plans[0] = plans[0] + [nxt[0]]
            else:
                succ = members[(mi + 1) % len(members)]
                rec = [succ]
                if kind == 'nonlinear' and mi == 0:
                    rec = [succ, rng.choice(members)]
                low = lower(nm)
                if low and rng.random() < 0.4:
                    rec = rec + [rng.choice(low)]
                plans.append(rec)
                # base rule (usually)
                if mi == 0 or rng.random() < 0.5:
                    if rng.random() < 0.9:
                        plans.append([rng.choice(low)] if low and rng.random() < 0.4 else [])
                for _ in range(max(0, nrules - len(plans))):
                    if kind == 'unit':
                        plans.append([])
                    else:
                        plans.append([rng.choice(members)] if rng.random() < 0.5 else [])
                nxt = [m for m in names if gi_of[m] == gi + 1 and m not in unreachable]
                if nxt and mi == 0 and not any(nxt[0] in p for p in plans):
                    plans[-1] = plans[-1] + [nxt[0]]
                if rng.random() < 0.5:
                    rng.shuffle(plans)
            for pi, p in enumerate(plans):
                opts = set()
                if rule_opts_pool and (first_rule or rng.random() < 0.3):
                    opts.update(rule_opts_pool)
                if 'edgeless-ext' in opts and not nts[nm]:
                    opts.discard('edgeless-ext')
                if 'no-edges-rule' in opts and p:
                    opts.discard('no-edges-rule')
                # random sprinkling of features even when not forced
                for f, pr in (('edgeless-internal', .08), ('edgeless-ext', .08), ('edge-twice', .08),
                              ('nullary', .08), ('ext-shuffle', .3)):
                    if rng.random() < pr and (f != 'edgeless-ext' or nts[nm]):
                        opts.add(f)
                if kind == 'unit' and p and all(gi_of[q] == gi for q in p):
                    # a pure cycle rule X -> Y: lhs and rhs NT must agree on the externals
                    r = make_unit_rule(rng, nm, p[0], nts, labs)
                    if r is not None:
                        rules.append(r)
                        first_rule = False
                        continue
                nt_ = None
                if kind in ('linear', 'nonlinear') and any(gi_of[q] == gi for q in p):
                    # a recursive rule always carries a terminal, so that rescaling the weights can
                    # make the recursion converge (a bare X -> X / X -> X X never does)
                    nt_ = rng.randint(1, max(1, max_edges - len(p)))
                rules.append(make_rule(nm, p, n_term=nt_, opts=opts))
                first_rule = False
    # 'edgeless-ext' needs some lhs with arity>0 whose rule got the option; if none, add one
    spec = dict(domains=domains, terminals=terminals, nonterminals={n: nts[n] for n in names},
                start=names[0], rules=rules, weights={}, wdomain=wdomain)
    if 'edgeless-ext' in forced and 'edgeless-ext' not in features_of(spec, light=True):
        cands = [n for n in names if nts[n] and n not in without_rules]
        if cands:
            nm = cands[0]
            rules.append(make_rule(nm, [], opts={'edgeless-ext'}))
    if 'unproductive-nt' in forced:
        # U has no terminating rule (every rule of U mentions U), so its value is zero and every rule
        # mentioning U is dead; U sits inside the SCC of X and X's dead rule is listed first
        cands = [n for n in names if n not in without_rules and n not in unreachable]
        X = rng.choice(cands)
        U = f'U{len(names)}'
        nts[U] = [rng.choice(labs) for _ in range(rng.choice([0, 1]))]
        names.append(U)
        gi_of[U] = gi_of[X]
        spec['nonterminals'][U] = nts[U]
        rules.append(make_rule(U, [X, U], n_term=1))
        if rng.random() < 0.5:
            rules.append(make_rule(U, [U], n_term=1))
        dead = make_rule(X, [U] + ([X] if rng.random() < 0.3 else []), n_term=1)
        first = next(i for i, r in enumerate(rules) if r['lhs'] == X)
        rules.insert(first, dead)
    if 'pass-through-self-rule' in forced and cls != 'nonrec':
        # X(v...) -> c(v0) X(v...): a nonterminal that recurses on itself while passing its nodes straight through, so
        # its own Jacobian block is a diagonal matrix
        cands = [n for n in names if nts[n] and n not in without_rules and any(r['lhs'] == n for r in rules)]
        if cands:
            X = rng.choice(cands)
            t = f'f{len(spec["terminals"])}'
            spec['terminals'][t] = [nts[X][0]]
            rules.append(dict(lhs=X, nodes=list(nts[X]), ext=list(range(len(nts[X]))), edges=[[t, [0]], [X, list(range(len(nts[X])))]]))
    if 'unit-base' in forced:
        # every terminating rule becomes `X -> (its external nodes, no edge)`: weight exactly one, so the first
        # non-zero value of every nonterminal is exactly one (log-value exactly 0)
        seen, new = set(), []
        for r in rules:
            if any(lab in nts for lab, _ in r['edges']):
                new.append(r)
                continue
            if r['lhs'] in seen:
                continue
            seen.add(r['lhs'])
            ext_labels = [r['nodes'][v] for v in r['ext']]
            new.append(dict(lhs=r['lhs'], nodes=ext_labels, ext=list(range(len(ext_labels))), edges=[]))
        rules[:] = new
    if 'many-rules' in forced and rng.random() < 0.5:
        rng.shuffle(rules)
    # ---- weights
    gen_weights(rng, spec, forced, grid=grid, allow_inf=allow_inf, ltypes=ltypes)
    return spec


def make_unit_rule(rng, lhs, rhs_nt, nts, labs):
    """X -> Y with the externals passed through; weight exactly one (no terminal edge)."""
    if nts[lhs] != nts[rhs_nt]:
        return None
    nodes = list(nts[lhs])
    ext = list(range(len(nodes)))
    return dict(lhs=lhs, nodes=nodes, ext=ext, edges=[[rhs_nt, list(ext)]])


def gen_weights(rng, spec, forced=(), grid=False, allow_inf=True, ltypes=None):
    wd = spec['wdomain']
    forced = set(forced)
    pz = 0.25 if 'zero-weight' in forced else 0.08
    pinf = (0.12 if 'inf-weight' in forced else 0.0) if allow_inf else 0.0

    def one():
        r = rng.random()
        if r < pz:
            return 0.0 if wd == 'real' else -math.inf
        if r < pz + pinf:
            return math.inf
        if wd == 'real':
            if grid:
                return rng.choice([0.25, 0.5, 0.75, 1.0, 1.5, 2.0])
            return round(rng.uniform(0.05, 2.0), 3) if rng.random() < 0.7 else rng.choice([0.5, 1.0, 2.0])
        else:
            if grid:
                return rng.choice([-3.0, -2.5, -2.0, -1.75, -1.5, -1.25, -1.0, -0.75, -0.5, -0.25, 0.0])
            return round(rng.uniform(-3.0, 0.0), 3)
    if ltypes is not None:
        # patterned factors: a well-typed sparsity pattern per factor; the dense weights the
        # oracle reads are computed from the pattern by oracle/axis_ref (not by the library)
        from . import types_patterns as TP
        from ..oracle import axis_ref as A
        spec['patterns'] = {}
        spec['ltypes'] = {l: repr(T) for l, T in ltypes.items()}
        zero = 0.0 if wd == 'real' else -math.inf
        for t, typ in spec['terminals'].items():
            default = zero if rng.random() < 0.8 else one()
            ps = TP.gen_pattern(rng, [ltypes[l] for l in typ], one, default)
            spec['patterns'][t] = ps
            spec['weights'][t] = A.densify(ps)[0]
        return
    for t, typ in spec['terminals'].items():
        spec['weights'][t] = nested(shape_of(spec, typ), one)
    terms = sorted(spec['terminals'])
    if terms:
        if 'zero-weight' in forced:
            force_value(rng, spec, rng.choice(terms), 0.0 if wd == 'real' else -math.inf)
        if 'inf-weight' in forced and allow_inf:
            force_value(rng, spec, rng.choice(terms), math.inf)


def force_value(rng, spec, t, val):
    w = spec['weights'][t]
    shape = shape_of(spec, spec['terminals'][t])
    if not shape:
        spec['weights'][t] = val
        return
    idx = [rng.randrange(s) for s in shape]
    x = w
    for i in idx[:-1]:
        x = x[i]
    x[idx[-1]] = val


def scale_recursive(spec, factor):
    """Multiply (real) / shift (log) the weights of every terminal by a constant."""
    wd = spec['wdomain']
    for t in spec['weights']:
        if wd == 'real':
            spec['weights'][t] = map_nested(spec['weights'][t], lambda x: x * factor if math.isfinite(x) else x)
        else:
            spec['weights'][t] = map_nested(spec['weights'][t], lambda x: x + math.log(factor) if math.isfinite(x) else x)


# ------------------------------------------------------------------------------ analysis

def nt_graph(spec):
    g = {n: [] for n in spec['nonterminals']}
    for r in spec['rules']:
        for lab, _ in r['edges']:
            if lab in spec['nonterminals'] and lab not in g[r['lhs']]:
                g[r['lhs']].append(lab)
    return g


def reach(g):
    """reflexive-transitive closure as dict node -> set"""
    r = {u: {u} | set(g[u]) for u in g}
    changed = True
    while changed:
        changed = False
        for u in g:
            new = set()
            for v in r[u]:
                new |= r[v]
            if not new <= r[u]:
                r[u] |= new
                changed = True
    return r


def sccs_of(spec):
    g = nt_graph(spec)
    r = reach(g)
    comps = {}
    for u in g:
        comps[u] = frozenset(v for v in g if v in r[u] and u in r[v])
    return g, r, comps


def recursive_nts(spec):
    g, r, comps = sccs_of(spec)
    return {u for u in g if len(comps[u]) > 1 or u in g[u]}


def is_linear(spec):
    """every rule has at most one rhs edge labelled by a nonterminal of its lhs's own *cyclic* SCC"""
    g, r, comps = sccs_of(spec)
    rec = recursive_nts(spec)
    for rule in spec['rules']:
        if rule['lhs'] not in rec:
            continue
        k = sum(1 for lab, _ in rule['edges'] if lab in comps[rule['lhs']])
        if k > 1:
            return False
    return True


def features_of(spec, light=False):
    f = set()
    nts = spec['nonterminals']
    lhss = {r['lhs'] for r in spec['rules']}
    used = {lab for r in spec['rules'] for lab, _ in r['edges']}
    g = nt_graph(spec)
    rs = reach(g)[spec['start']]
    if any(n not in lhss for n in nts):
        f.add('nt-without-rules')
    if any(n not in rs for n in nts):
        f.add('unreachable-nt')
    if nts[spec['start']]:
        f.add('start-arity')
    if any(s == 1 for s in spec['domains'].values()):
        f.add('size1-domain')
    if any(len(r['nodes']) == len(r['ext']) >= 1 and any(lab == r['lhs'] and list(att) == list(r['ext']) for lab, att in r['edges']) for r in spec['rules']):
        f.add('pass-through-self-rule')
    term_rules = [r for r in spec['rules'] if not any(lab in nts for lab, _ in r['edges'])]
    if term_rules and all(not r['edges'] and len(r['nodes']) == len(r['ext']) for r in term_rules):
        f.add('unit-base')
    tcount = {}
    for r in spec['rules']:
        att_all = [v for _, att in r['edges'] for v in att]
        if not r['edges']:
            f.add('no-edges-rule')
        for v in range(len(r['nodes'])):
            if v not in att_all:
                f.add('edgeless-ext' if v in r['ext'] else 'edgeless-internal')
        labs_here = [lab for lab, _ in r['edges']]
        for lab, att in r['edges']:
            if len(set(att)) < len(att):
                f.add('edge-twice')
                if any(att.count(v) > 1 and v in r['ext'] for v in att):
                    f.add('ext-also-attached-twice')
            if any(v in r['ext'] for v in att):
                f.add('edge-on-ext')
            if lab in spec['terminals'] and not att:
                f.add('nullary')
        for lab in set(labs_here):
            if lab in spec['terminals']:
                tcount[lab] = tcount.get(lab, 0) + 1
                if labs_here.count(lab) > 1:
                    f.add('factor-twice-in-rule')
        if len(r['edges']) >= 3:
            f.add('ge3-edges')
            first = r['edges'][0][1]
            rest = {v for _, att in r['edges'][1:] for v in att}
            if any(v not in rest and v not in r['ext'] for v in first):
                f.add('jpre-shape')
        if len(set(r['ext'])) < len(r['ext']):
            f.add('dup-ext')
    if any(c > 1 for c in tcount.values()):
        f.add('shared-factor')
    if len(spec['rules']) >= 5:
        f.add('many-rules')
    if light:
        return f
    zero = 0.0 if spec['wdomain'] == 'real' else -math.inf
    vals = [x for w in spec['weights'].values() for x in flat(w)]
    if any(x == zero for x in vals):
        f.add('zero-weight')
    if any(x == math.inf for x in vals):
        f.add('inf-weight')
    rec = recursive_nts(spec)
    if rec:
        f.add('recursive')
        f.add('linear-rec' if is_linear(spec) else 'nonlinear-rec')
        if any(len(c) > 1 for c in sccs_of(spec)[2].values()):
            f.add('mutual-rec')
    return f


def spec_key(spec):
    import hashlib, json
    return hashlib.sha1(json.dumps(spec, sort_keys=True).encode()).hexdigest()[:12]


def describe(spec, maxw=6):
    """compact human-readable rendering for evidence samples"""
    rules = []
    for r in spec['rules']:
        es = ' '.join(f"{lab}({','.join(map(str, att))})" for lab, att in r['edges'])
        rules.append(f"{r['lhs']} -> nodes[{','.join(r['nodes'])}] ext{r['ext']} : {es if es else '(no edges)'}")
    ws = {}
    for t, w in list(spec['weights'].items())[:maxw]:
        ws[t] = w
    return dict(domains=spec['domains'], start=spec['start'], nonterminals=spec['nonterminals'],
                rules=rules, weights=ws, wdomain=spec['wdomain'])


# ------------------------------------------------------------------------------ realisation

def weights_in(spec, t, semiring):
    """nested list of the weights of terminal t in the carrier of `semiring`
    ('real','log','viterbi','bool')"""
    w = spec['weights'][t]
    wd = spec['wdomain']
    if semiring == 'real':
        return w if wd == 'real' else map_nested(w, lambda x: math.exp(x) if x > -math.inf else 0.0)
    if semiring in ('log', 'viterbi'):
        if wd == 'log':
            return w
        return map_nested(w, lambda x: (math.log(x) if x < math.inf else math.inf) if x > 0 else -math.inf)
    if semiring == 'bool':
        return map_nested(w, (lambda x: x > 0) if wd == 'real' else (lambda x: x > -math.inf))
    raise ValueError(semiring)


def make_semiring(fggs, name, dtype=None):
    import torch
    if name == 'real':
        return fggs.RealSemiring(dtype=dtype)
    if name == 'log':
        return fggs.LogSemiring(dtype=dtype)
    if name == 'viterbi':
        return fggs.ViterbiSemiring(dtype=dtype)
    if name == 'bool':
        return fggs.BoolSemiring()
    raise ValueError(name)


def build_fgg(fggs, spec, semiring='real', dtype=None, *, explicit_ids=False, rule_order=None,
              node_orders=None, edge_orders=None, rename=None, domain_kind='range', domain_values=None,
              value_perm=None, weight_builder=None, requires_grad=False, nt_decl_first=False, ghost_rng=None,
              id_namer=None, start_via_setter=False):
    """Realise a spec through the public API.

    rename:       dict old name -> new name for node labels / edge labels (consistent renaming)
    value_perm:   dict node label -> permutation p (new position k holds old value p[k]); factor axes
                  are permuted accordingly
    domain_values:dict node label -> list of values (FiniteDomain); default RangeDomain
    weight_builder(name, nested_list, dtype) -> Tensor | PatternedTensor  (default dense tensor)
    id_namer(kind, rule index, node/edge index) -> explicit id string (default 'r<ri>n<vi>')
    returns (fgg, info) where info maps spec names to objects
    """
    import torch
    if dtype is None:
        dtype = torch.get_default_dtype()
    rn = (lambda s: rename.get(s, s)) if rename else (lambda s: s)
    nl = {l: fggs.NodeLabel(rn(l)) for l in spec['domains']}
    el = {}
    for t, typ in spec['terminals'].items():
        el[t] = fggs.EdgeLabel(rn(t), [nl[l] for l in typ], is_terminal=True)
    for n, typ in spec['nonterminals'].items():
        el[n] = fggs.EdgeLabel(rn(n), [nl[l] for l in typ], is_nonterminal=True)
    other_nts = [n for n in spec['nonterminals'] if n != spec['start']]
    if start_via_setter and other_nts:
        # the grammar is created with another start symbol (so that one is registered first) and the real start symbol
        # is set through the public setter once everything has been added
        fgg = fggs.FGG(el[other_nts[-1]])
    else:
        start_via_setter = False
        fgg = fggs.FGG(el[spec['start']])
    if nt_decl_first:
        for n in spec['nonterminals']:
            fgg.add_edge_label(el[n])
    order = list(range(len(spec['rules']))) if rule_order is None else list(rule_order)
    rule_objs = {}
    node_objs = {}
    edge_objs = {}
    given_ids = {'n': [], 'e': []}
    for ri in order:
        r = spec['rules'][ri]
        if r.get('dup_of') is not None and r['dup_of'] in rule_objs:
            # the same rule a second time (rules are a multiset): a copy with identical node and edge ids
            j = r['dup_of']
            rule = rule_objs[j].copy()
            fgg.add_rule(rule)
            rule_objs[ri] = rule
            node_objs[ri] = node_objs[j]
            for (rj, ei), e in list(edge_objs.items()):
                if rj == j:
                    edge_objs[ri, ei] = e
            continue
        g = fggs.Graph()
        norder = list(range(len(r['nodes']))) if not node_orders else list(node_orders[ri])
        nodes = {}
        for vi in norder:
            ex_n = explicit_ids if explicit_ids != 'mixed' else (ri + vi) % 2 == 0
            nid = (id_namer('n', ri, vi) if id_namer else f'r{ri}n{vi}') if ex_n else None
            nodes[vi] = fggs.Node(nl[r['nodes'][vi]], id=nid) if nid is not None else fggs.Node(nl[r['nodes'][vi]])
            if nid is not None:
                given_ids['n'].append(nid)
            g.add_node(nodes[vi])
        eorder = list(range(len(r['edges']))) if not edge_orders else list(edge_orders[ri])
        for ei in eorder:
            lab, att = r['edges'][ei]
            ex_e = explicit_ids if explicit_ids != 'mixed' else (ri + ei) % 3 != 0
            eid = (id_namer('e', ri, ei) if id_namer else f'r{ri}e{ei}') if ex_e else None
            e = fggs.Edge(el[lab], [nodes[v] for v in att], id=eid) if eid is not None else fggs.Edge(el[lab], [nodes[v] for v in att])
            if eid is not None:
                given_ids['e'].append(eid)
            g.add_edge(e)
            edge_objs[ri, ei] = e
        g.ext = [nodes[v] for v in r['ext']]
        ghost_after = None
        if ghost_rng is not None and ghost_rng.random() < 0.6:
            # history that leaves no trace in the rule: an edge added and removed again, or a label
            # registered on the right-hand side without any edge carrying it
            cands = [n for n in spec['nonterminals'] if all(any(r['nodes'][v] == l for v in nodes) for l in spec['nonterminals'][n])]
            if cands:
                gn = ghost_rng.choice(cands)
                att = [ghost_rng.choice([nodes[v] for v in nodes if r['nodes'][v] == l]) for l in spec['nonterminals'][gn]]
                ghost = fggs.Edge(el[gn], att)
                mode = ghost_rng.choice(['before', 'after', 'label-only'])
                if mode == 'before':
                    g.add_edge(ghost)
                    g.remove_edge(ghost)
                elif mode == 'label-only':
                    g.add_edge_label(el[gn])
                else:
                    ghost_after = ghost
        rule = fggs.HRGRule(el[r['lhs']], g)
        fgg.add_rule(rule)
        if ghost_after is not None:
            g.add_edge(ghost_after)
            g.remove_edge(ghost_after)
        rule_objs[ri] = rule
        node_objs[ri] = nodes
    # nonterminals without rules / never mentioned must still be registered
    for n in spec['nonterminals']:
        fgg.add_edge_label(el[n])
    for t in spec['terminals']:
        fgg.add_edge_label(el[t])
    for l, size in spec['domains'].items():
        if domain_values and l in domain_values:
            vals = list(domain_values[l])
            if value_perm and l in value_perm:
                vals = [vals[i] for i in value_perm[l]]
            dom = fggs.FiniteDomain(vals)
        elif domain_kind == 'finite':
            vals = [f'{l}v{i}' for i in range(size)]
            if value_perm and l in value_perm:
                vals = [vals[i] for i in value_perm[l]]
            dom = fggs.FiniteDomain(vals)
        else:
            dom = fggs.RangeDomain(size)
        fgg.add_domain(nl[l], dom)
    if start_via_setter:
        fgg.start = el[spec['start']]
    weights = {}
    for t, typ in spec['terminals'].items():
        w = weights_in(spec, t, semiring)
        if value_perm:
            w = permute_nested(w, [value_perm.get(l) for l in typ])
        if weight_builder is not None:
            wt = weight_builder(t, w, dtype)
        else:
            wt = torch.tensor(w, dtype=torch.bool if semiring == 'bool' else dtype)
        if requires_grad:
            if isinstance(wt, torch.Tensor):
                wt.requires_grad_()
            else:
                wt.physical.requires_grad_()
        doms = [fgg.domains[nl[l].name] for l in typ]
        fgg.add_factor(el[t], fggs.FiniteFactor(doms, wt))
        weights[t] = wt
    return fgg, dict(nl=nl, el=el, rules=rule_objs, nodes=node_objs, edges=edge_objs, weights=weights, given_ids=given_ids)


def permute_nested(w, perms):
    """permute axis k of nested list w by perms[k] (new index i holds old index perms[k][i])"""
    if not perms:
        return w
    p, rest = perms[0], perms[1:]
    rows = w if p is None else [w[i] for i in p]
    return [permute_nested(r, rest) for r in rows]


def pattern_weight_builder(fggs, spec, semiring):
    """weight_builder for build_fgg that realises spec['patterns'] as PatternedTensors in the
    carrier of `semiring` (elementwise conversion of physical storage and default)"""
    import torch
    from . import types_patterns as TP
    wd = spec['wdomain']

    def conv(x):
        if semiring == 'real':
            return x if wd == 'real' else (math.exp(x) if x > -math.inf else 0.0)
        if semiring in ('log', 'viterbi'):
            if wd == 'log':
                return x
            return (math.log(x) if x < math.inf else math.inf) if x > 0 else -math.inf
        return (x > 0) if wd == 'real' else (x > -math.inf)

    def builder(t, w, dtype):
        ps = dict(spec['patterns'][t])
        ps['physical'] = map_nested(ps['physical'], conv)
        ps['default'] = conv(ps['default'])
        return TP.realise(fggs.indices, ps, torch.bool if semiring == 'bool' else dtype)
    return builder


def gen_broadcast_spec(rng, wdomain='real', allow_inf=False, max_dom=3):
    """Non-recursive grammars whose nonterminal values are broadcast (stride-0) tensors: nonterminals of
    arity 2-3 with rules that leave some or all external nodes without edges, used by parent rules
    with few or no internal nodes and with the externals listed in a shuffled order."""
    nlab = rng.randint(2, 3)
    domains = {f'L{i}': rng.randint(1, max_dom) for i in range(nlab)}
    if all(v == 1 for v in domains.values()):
        domains['L0'] = 2
    if rng.random() < 0.5:
        domains = {l: max(2, v) for l, v in domains.items()}     # distinct-looking sizes expose transpositions
    labs = sorted(domains)
    terminals, rules = {}, []

    def new_terminal(typ):
        nm = f'f{len(terminals)}'
        terminals[nm] = list(typ)
        return nm
    ne = rng.randint(1, 2)
    nts = {}
    names = ['S'] + [f'E{i}' for i in range(ne)]
    for nm in names[1:]:
        nts[nm] = [rng.choice(labs) for _ in range(rng.randint(2, 3))]
    # E rules
    for nm in names[1:]:
        k = len(nts[nm])
        for _ in range(rng.randint(1, 2)):
            nodes = list(nts[nm])
            ext = list(range(k))
            edges = []
            covered = rng.sample(range(k), rng.choice([0, 0, 1, max(0, k - 1)]))
            for v in covered:
                edges.append([new_terminal([nodes[v]]), [v]])
            if rng.random() < 0.3:
                edges.append([new_terminal([]), []])
            if rng.random() < 0.3:
                nodes.append(rng.choice(labs))     # edgeless internal node
            rules.append(dict(lhs=nm, nodes=nodes, ext=ext, edges=edges))
    # S: uses E's on its own externals, in permuted positions
    pool_nodes = []
    edges = []
    for nm in names[1:]:
        for _ in range(rng.randint(1, 2)):
            att = []
            for l in nts[nm]:
                cands = [i for i, x in enumerate(pool_nodes) if x == l]
                if cands and rng.random() < 0.5:
                    att.append(rng.choice(cands))
                else:
                    pool_nodes.append(l)
                    att.append(len(pool_nodes) - 1)
            edges.append([nm, att])
    for _ in range(rng.randint(0, 2)):
        if pool_nodes:
            v = rng.randrange(len(pool_nodes))
            edges.append([new_terminal([pool_nodes[v]]), [v]])
    n = len(pool_nodes)
    n_int = rng.choice([0, 0, 0, 1]) if n > 1 else 0
    ext = list(range(n))
    rng.shuffle(ext)
    ext = ext[:max(0, n - n_int)]
    if len(ext) > 4:
        ext = ext[:4]
    rng.shuffle(edges)
    nts['S'] = [pool_nodes[v] for v in ext]
    rules.append(dict(lhs='S', nodes=pool_nodes, ext=ext, edges=edges))
    rng.shuffle(rules)
    spec = dict(domains=domains, terminals=terminals, nonterminals={n_: nts[n_] for n_ in names}, start='S', rules=rules,
                weights={}, wdomain=wdomain)
    gen_weights(rng, spec, (), allow_inf=allow_inf)
    return spec


def gen_zero_cycle_spec(rng):
    """Linear recursions whose factor tables contain cycles of log-weight exactly 0 that tie with the best
    acyclic derivation (log domain): X(a) -> f(a,b) X(b) | stop(a), optionally through a second nonterminal."""
    n = rng.randint(2, 4)
    domains = {'L0': n}
    two = rng.random() < 0.4
    nts = {'S': [], 'X': ['L0']}
    if two:
        nts['Y'] = ['L0']
    if rng.random() < 0.4:
        nts['S'] = ['L0']
    terminals = {'f': ['L0', 'L0'], 'stop': ['L0'], 'init': ['L0']}
    rules = []
    nxt = 'Y' if two else 'X'
    rules.append(dict(lhs='X', nodes=['L0', 'L0'], ext=[0], edges=[['f', [0, 1]], [nxt, [1]]]))
    rules.append(dict(lhs='X', nodes=['L0'], ext=[0], edges=[['stop', [0]]]))
    if two:
        terminals['g'] = ['L0', 'L0']
        rules.append(dict(lhs='Y', nodes=['L0', 'L0'], ext=[0], edges=[['g', [0, 1]], ['X', [1]]]))
        if rng.random() < 0.5:
            rules.append(dict(lhs='Y', nodes=['L0'], ext=[0], edges=[['stop', [0]]]))
    if nts['S']:
        rules.append(dict(lhs='S', nodes=['L0'], ext=[0], edges=[['X', [0]]]))
    else:
        rules.append(dict(lhs='S', nodes=['L0'], ext=[], edges=[['init', [0]], ['X', [0]]]))
    rng.shuffle(rules)

    def tr():
        r = rng.random()
        return 0.0 if r < 0.45 else (-math.inf if r < 0.8 else rng.choice([-0.5, -1.0]))
    weights = {'f': [[tr() for _ in range(n)] for _ in range(n)],
               'stop': [(-math.inf if rng.random() < 0.5 else rng.choice([-1.0, -2.0, 0.0])) for _ in range(n)],
               'init': [rng.choice([0.0, -0.5, -math.inf]) for _ in range(n)]}
    if all(x == -math.inf for x in weights['stop']):
        weights['stop'][rng.randrange(n)] = -1.0
    if two:
        weights['g'] = [[tr() for _ in range(n)] for _ in range(n)]
    spec = dict(domains=domains, terminals={t: v for t, v in terminals.items() if any(t == l for r in rules for l, _ in r['edges'])},
                nonterminals=nts, start='S', rules=rules, weights={}, wdomain='log')
    spec['weights'] = {t: weights[t] for t in spec['terminals']}
    return spec


ODD_IDS = ['', '0', 'None', ' ', 'null', 'é', '-1', 'id']


def odd_id_namer(kind, ri, i):
    """explicit ids that are valid JSON strings but falsy / number-like / keyword-like"""
    return ODD_IDS[i] if i < len(ODD_IDS) else f'r{ri}{kind}{i}'


def gen_private_dependency_spec(rng, wdomain='log'):
    """A cyclic component of 2-4 nonterminals entered from the start symbol through ONE member, in which ANOTHER member
    is the only user of an outside nonterminal C (possibly itself depending on D), and the best / heaviest derivations
    go through C.  Nonterminals are unary over one small domain (or nullary); the declaration order of nonterminals
    and the order of rules are shuffled, so the component's internal iteration order varies."""
    n = rng.randint(2, 4)
    unary = rng.random() < 0.6
    typ = ['L0'] if unary else []
    dom = rng.randint(1, 3)
    members = [f'M{i}' for i in range(n)]
    entry = rng.randrange(n)
    priv = rng.choice([i for i in range(n) if i != entry])
    names = ['S'] + members + ['C'] + (['D'] if rng.random() < 0.4 else [])
    decl = names[1:]
    rng.shuffle(decl)
    nts = {'S': typ}
    for m in decl:
        nts[m] = typ
    terminals, weights, rules = {}, {}, []

    def term(val_lo, val_hi):
        t = f'f{len(terminals)}'
        terminals[t] = list(typ)
        w = lambda: round(rng.uniform(val_lo, val_hi), 3)
        weights[t] = [w() for _ in range(dom)] if unary else w()
        return t

    def rule(lhs, nt=None, lo=-0.6, hi=-0.2):
        t = term(lo, hi)
        nodes, ext, att = (['L0'], [0], [0]) if unary else ([], [], [])
        edges = [[t, list(att)]] + ([[nt, list(att)]] if nt else [])
        rng.shuffle(edges)
        rules.append(dict(lhs=lhs, nodes=nodes, ext=ext, edges=edges))
    rule('S', members[entry])
    for i in range(n):
        rule(members[i], members[(i + 1) % n])                 # the cycle
    if n >= 3 and rng.random() < 0.5:
        a, b = rng.sample(range(n), 2)
        rule(members[a], members[b])                           # a chord
    rule(members[priv], 'C', -0.3, -0.1)                       # the private outside dependency
    rule(members[rng.randrange(n)], None, -6.0, -4.0)          # a poor terminating rule inside the component
    if 'D' in names:
        rule('C', 'D', -0.2, -0.05)
        rule('D', None, -0.2, -0.05)
    else:
        rule('C', None, -0.2, -0.05)
    rng.shuffle(rules)
    if wdomain == 'real':
        weights = {t: map_nested(w, math.exp) for t, w in weights.items()}
    return dict(domains={'L0': dom}, terminals=terminals, nonterminals=nts, start='S', rules=rules, weights=weights, wdomain=wdomain)


def gen_matrix_closure_spec(rng):
    """X(i,j) -> B(i,j) | X(i,k) A(k,j)   (or A(i,k) X(k,j)): the closure B (I - A)^-1 with a SPARSELY PATTERNED base
    factor B (identity / shifted diagonal / single column) and a dense A of spectral radius <= 0.8, so that successive
    iterates of the nonterminal have sparsity patterns of different physical sizes.  Real weight domain; spec['patterns']
    is set (realise with pattern_weight_builder)."""
    from ..oracle import axis_ref as A_
    n = rng.randint(2, 4)
    rows = []
    for _ in range(n):
        r = [rng.choice([0.0, rng.uniform(0.1, 1.0)]) for _ in range(n)]
        if not any(r):
            r[rng.randrange(n)] = 1.0
        tot = sum(r) / rng.choice([0.5, 0.7, 0.8])
        rows.append([round(x / tot, 4) for x in r])
    kind = rng.choice(['eye', 'eye', 'shifted', 'column'])
    if kind == 'eye' or n < 3:
        pb = dict(psizes=[n], vaxes=[0, 0], default=0.0, physical=[round(rng.uniform(0.5, 1.5), 3) if rng.random() < 0.5 else 1.0 for _ in range(n)], expand=[])
    elif kind == 'shifted':
        pb = dict(psizes=[n - 1], vaxes=[{'before': 1, 'term': 0, 'after': 0}, {'before': 0, 'term': 0, 'after': 1}], default=0.0,
                  physical=[1.0] * (n - 1), expand=[])
    else:
        c = rng.randrange(n)
        pb = dict(psizes=[n], vaxes=[0, {'before': c, 'term': [], 'after': n - 1 - c}], default=0.0, physical=[1.0] * n, expand=[])
    pa = dict(psizes=[n, n], vaxes=[0, 1], default=0.0, physical=rows, expand=[])
    left = rng.random() < 0.5
    rec = dict(lhs='X', nodes=['L0', 'L0', 'L0'], ext=[0, 2],
               edges=[['A', [0, 1]], ['X', [1, 2]]] if left else [['X', [0, 1]], ['A', [1, 2]]])
    base = dict(lhs='X', nodes=['L0', 'L0'], ext=[0, 1], edges=[['B', [0, 1]]])
    rules = [base, rec] if rng.random() < 0.5 else [rec, base]
    nts = {'X': ['L0', 'L0']}
    start = 'X'
    if rng.random() < 0.5:
        nts = {'S': [], 'X': ['L0', 'L0']}
        start = 'S'
        rules.append(dict(lhs='S', nodes=['L0', 'L0'], ext=[], edges=[['X', [0, 1]]]))
    spec = dict(domains={'L0': n}, terminals={'B': ['L0', 'L0'], 'A': ['L0', 'L0']}, nonterminals=nts, start=start, rules=rules,
                weights={}, wdomain='real', patterns={'B': pb, 'A': pa})
    for t, ps in spec['patterns'].items():
        spec['weights'][t] = A_.densify(ps)[0]
    return spec


def gen_chain_spec(rng, wdomain='real'):
    """A path automaton of 5-9 states: S -> init(q) X(q); X(q) -> T(q,r) X(r) | stop(q), with T a (slightly noisy) shift and
    `stop` non-zero only near the end: the support of X has to propagate through as many sweeps as there are states --
    many more than the grammar has nonterminals."""
    n = rng.randint(5, 9)
    T = [[0.0] * n for _ in range(n)]
    for i in range(n - 1):
        T[i][i + 1] = rng.choice([0.5, 0.4, 0.6])
    for _ in range(rng.choice([0, 1, 2])):
        i, j = rng.randrange(n), rng.randrange(n)
        if j <= i:                       # backward / self transitions only: the shortest accepting path stays long
            T[i][j] = rng.choice([0.1, 0.2])
    stop = [0.0] * n
    stop[n - 1] = rng.choice([0.5, 1.0])
    init = [0.0] * n
    init[0] = 1.0
    two = rng.random() < 0.4
    nts = {'S': [], 'X': ['L0']}
    rules = [dict(lhs='S', nodes=['L0'], ext=[], edges=[['init', [0]], ['X', [0]]]),
             dict(lhs='X', nodes=['L0'], ext=[0], edges=[['stop', [0]]])]
    if two:
        nts['Y'] = ['L0']
        rules.append(dict(lhs='X', nodes=['L0', 'L0'], ext=[0], edges=[['T', [0, 1]], ['Y', [1]]]))
        rules.append(dict(lhs='Y', nodes=['L0'], ext=[0], edges=[['X', [0]]]))
    else:
        rules.append(dict(lhs='X', nodes=['L0', 'L0'], ext=[0], edges=[['T', [0, 1]], ['X', [1]]] if rng.random() < 0.5 else [['X', [1]], ['T', [0, 1]]]))
    rng.shuffle(rules)
    weights = {'T': T, 'stop': stop, 'init': init}
    if wdomain == 'log':
        weights = {t: map_nested(w, lambda x: math.log(x) if x > 0 else -math.inf) for t, w in weights.items()}
    return dict(domains={'L0': n}, terminals={'T': ['L0', 'L0'], 'stop': ['L0'], 'init': ['L0']}, nonterminals=nts, start='S',
                rules=rules, weights=weights, wdomain=wdomain)


def gen_sibling_dependency_spec(rng, wdomain='real'):
    """Non-recursive: the start rule uses 3-4 sibling nonterminals, some of which depend one-way on an EARLIER sibling that
    is not their immediate predecessor in the dependency order (S -> A B C, C -> A c): several acyclic one-nonterminal
    components in a row, with a dependency that skips one."""
    k = rng.randint(3, 4)
    unary = rng.random() < 0.5
    typ = ['L0'] if unary else []
    dom = rng.randint(1, 3)
    sib = [f'N{i}' for i in range(k)]
    terminals, weights, rules = {}, {}, []

    def term():
        t = f'f{len(terminals)}'
        terminals[t] = list(typ)
        w = lambda: round(rng.uniform(0.3, 2.0), 3)
        weights[t] = [w() for _ in range(dom)] if unary else w()
        return t
    nodes, ext, att = (['L0'], [0], [0]) if unary else ([], [], [])
    for i, n in enumerate(sib):
        edges = [[term(), list(att)]]
        if i >= 2 and rng.random() < 0.8:
            edges.append([sib[rng.randrange(0, i - 1)], list(att)])          # skips the immediate predecessor
        elif i >= 1 and rng.random() < 0.2:
            edges.append([sib[i - 1], list(att)])
        rng.shuffle(edges)
        rules.append(dict(lhs=n, nodes=list(nodes), ext=list(ext), edges=edges))
        if rng.random() < 0.3:
            rules.append(dict(lhs=n, nodes=list(nodes), ext=list(ext), edges=[[term(), list(att)]]))
    s_edges = [[n, list(att)] for n in sib] + [[term(), list(att)]]
    if rng.random() < 0.5:
        rng.shuffle(s_edges)
    rules.append(dict(lhs='S', nodes=list(nodes), ext=list(ext), edges=s_edges))
    if rng.random() < 0.5:
        rng.shuffle(rules)
    nts = {'S': list(typ)}
    decl = list(sib)
    if rng.random() < 0.5:
        rng.shuffle(decl)
    for n in decl:
        nts[n] = list(typ)
    if wdomain == 'log':
        weights = {t: map_nested(w, math.log) for t, w in weights.items()}
    return dict(domains={'L0': dom}, terminals=terminals, nonterminals=nts, start='S', rules=rules, weights=weights, wdomain=wdomain)


def gen_dense_linear_scc_spec(rng, wdomain='real'):
    """Linearly recursive: one strongly connected component of 4-6 unary nonterminals whose dependency graph is a cycle
    plus several extra forward and BACK edges (two or more back edges into the same nonterminal, back edges to different
    nonterminals interleaved in rule order), base rules on a few of them, entered from S at one or two places.  This is the
    shape on which an elimination order for the block solve (linking / non-linking nonterminals found by a DFS) has real
    choices; which nonterminal the DFS starts from depends on how the grammar is written down."""
    k = rng.randint(4, 6)
    dom = rng.randint(1, 2)
    nt = [f'N{i}' for i in range(k)]
    terminals, weights, rules = {}, {}, []

    def term(arity, scale):
        t = f'f{len(terminals)}'
        terminals[t] = ['L0'] * arity
        weights[t] = nested([dom] * arity, lambda *_: round(rng.uniform(0.2, 1.0) * scale, 4))
        return t
    succ = {i: {(i + 1) % k} for i in range(k)}
    for i in range(k):
        for j in range(k):
            if i != j and rng.random() < 0.35:
                succ[i].add(j)
    tgt = rng.randrange(k)                                       # one nonterminal with several incoming back edges
    for i in rng.sample([i for i in range(k) if i != tgt], 2):
        succ[i].add(tgt)
    for i in range(k):
        js = sorted(succ[i])
        rng.shuffle(js)
        for j in js:
            rules.append(dict(lhs=nt[i], nodes=['L0', 'L0'], ext=[0], edges=[[term(2, 0.5 / len(js)), [0, 1]], [nt[j], [1]]]))
    for i in rng.sample(range(k), rng.randint(1, 2)):
        rules.append(dict(lhs=nt[i], nodes=['L0'], ext=[0], edges=[[term(1, 1.0), [0]]]))
    for i in rng.sample(range(k), rng.randint(1, 2)):
        rules.append(dict(lhs='S', nodes=['L0'], ext=[], edges=[[term(1, 1.0), [0]], [nt[i], [0]]]))
    rng.shuffle(rules)
    nts = {'S': []}
    decl = list(nt)
    rng.shuffle(decl)
    for n in decl:
        nts[n] = ['L0']
    if wdomain == 'log':
        weights = {t: map_nested(w, math.log) for t, w in weights.items()}
    return dict(domains={'L0': dom}, terminals=terminals, nonterminals=nts, start='S', rules=rules, weights=weights, wdomain=wdomain)
