"""Type-directed generator of well-typed sparsity patterns (DESIGN §2.2).

Type ::= ('atom', n) | ('prod', (T, ...)) | ('sum', (T, ...))

A pattern of type T is an axis expression (see oracle/axis_ref.py) whose physical axes are
either fresh or *shared with an earlier position of the same type* (diagonals).  Everything is
plain data; `realise` turns a pattern spec into a fggs PatternedTensor through the public
constructors.
"""
import math, random
from ..oracle import axis_ref as A


def t_numel(T):
    if T[0] == 'atom':
        return T[1]
    if T[0] == 'prod':
        n = 1
        for c in T[1]:
            n *= t_numel(c)
        return n
    return sum(t_numel(c) for c in T[1])


def t_depth(T):
    return 0 if T[0] == 'atom' else 1 + max((t_depth(c) for c in T[1]), default=0)


def gen_type(rng, depth=2, max_numel=12, allow_zero=False, allow_one=True):
    """random index type with 1 <= numel <= max_numel (0 only if allow_zero)"""
    for _ in range(50):
        T = _gen_type(rng, depth, max_numel, allow_zero, allow_one)
        n = t_numel(T)
        if n <= max_numel and (n > 0 or allow_zero):
            return T
    return ('atom', rng.randint(2, min(4, max_numel)))


def _gen_type(rng, depth, max_numel, allow_zero, allow_one):
    r = rng.random()
    if depth == 0 or r < 0.35:
        lo = 0 if allow_zero and rng.random() < 0.3 else (1 if allow_one and rng.random() < 0.2 else 2)
        return ('atom', rng.randint(lo, max(lo, min(6, max_numel))))
    k = rng.choice([2, 2, 3])
    if r < 0.68:
        cs, left = [], max_numel
        for _ in range(k):
            c = _gen_type(rng, depth - 1, max(1, min(left, 6)), allow_zero, allow_one)
            cs.append(c)
            left = max(1, left // max(1, t_numel(c)))
        return ('prod', tuple(cs))
    cs = []
    left = max_numel
    for i in range(k):
        c = _gen_type(rng, depth - 1, max(1, left - (k - 1 - i)), allow_zero, allow_one)
        cs.append(c)
        left = max(1, left - t_numel(c))
    return ('sum', tuple(cs))


class Ctx:
    """physical axes of one tensor under construction; `pool` lets later positions (or later
    operands) re-use an axis of the same type"""

    def __init__(self, rng, share_p=0.3, unit_as_axis_p=0.1, structure_p=0.6, fuse_p=0.3):
        self.rng = rng
        self.psizes = []
        self.ptypes = []
        self.share_p = share_p
        self.unit_as_axis_p = unit_as_axis_p
        self.structure_p = structure_p
        self.fuse_p = fuse_p

    def fresh(self, T):
        self.psizes.append(t_numel(T))
        self.ptypes.append(T)
        return len(self.psizes) - 1

    def dense(self, T):
        n = t_numel(T)
        if n == 1 and self.rng.random() >= self.unit_as_axis_p:
            return []                      # unitAxis
        cands = [k for k, t in enumerate(self.ptypes) if t == T]
        if cands and self.rng.random() < self.share_p:
            return self.rng.choice(cands)
        return self.fresh(T)


def gen_axis(ctx, T):
    rng = ctx.rng
    if T[0] == 'atom' or rng.random() >= ctx.structure_p or t_numel(T) == 0:
        return ctx.dense(T)
    if T[0] == 'prod':
        cs = list(T[1])
        out = []
        i = 0
        while i < len(cs):
            if i + 1 < len(cs) and rng.random() < ctx.fuse_p:
                out.append(ctx.dense(('prod', (cs[i], cs[i + 1]))))
                i += 2
            else:
                out.append(gen_axis(ctx, cs[i]))
                i += 1
        return out if len(out) != 1 else out[0]
    # sum: one injection
    i = rng.randrange(len(T[1]))
    before = sum(t_numel(c) for c in T[1][:i])
    after = sum(t_numel(c) for c in T[1][i + 1:])
    return {'before': before, 'term': gen_axis(ctx, T[1][i]), 'after': after}


def gen_pattern(rng, dimtypes, value_fn, default, *, share_p=0.3, structure_p=0.6, expand_p=0.15,
                shuffle=True, ctx=None):
    """pattern spec for a tensor whose k-th dimension has index type dimtypes[k]"""
    ctx = ctx or Ctx(rng, share_p=share_p, structure_p=structure_p)
    vaxes = [gen_axis(ctx, T) for T in dimtypes]
    # every physical axis must occur in vaxes (ctx only creates axes that are used) ; now order them
    n = len(ctx.psizes)
    perm = list(range(n))
    if shuffle:
        rng.shuffle(perm)          # perm[old] = new position
    psizes = [None] * n
    for old, new in enumerate(perm):
        psizes[new] = ctx.psizes[old]
    vaxes = [_renumber(e, perm) for e in vaxes]
    expand = []
    if n and rng.random() < expand_p:
        cands = [k for k in range(n) if psizes[k] > 1]
        if cands:
            expand = [rng.choice(cands)]
    store = [1 if k in expand else s for k, s in enumerate(psizes)]
    base = _nested(store, value_fn)
    physical = _expand_nested(base, store, psizes)
    return dict(psizes=psizes, vaxes=vaxes, default=default, physical=physical, expand=expand,
                types=[repr(T) for T in dimtypes])


def _renumber(e, perm):
    if isinstance(e, int):
        return perm[e]
    if isinstance(e, list):
        return [_renumber(f, perm) for f in e]
    return {'before': e['before'], 'term': _renumber(e['term'], perm), 'after': e['after']}


def _nested(shape, fn):
    if not shape:
        return fn()
    return [_nested(shape[1:], fn) for _ in range(shape[0])]


def _expand_nested(x, store, full):
    if not store:
        return x
    if store[0] == full[0]:
        return [_expand_nested(y, store[1:], full[1:]) for y in x]
    return [_expand_nested(x[0], store[1:], full[1:]) for _ in range(full[0])]


def depict(ps):
    def d(e):
        if isinstance(e, int):
            return f'P{e}({ps["psizes"][e]})'
        if isinstance(e, list):
            return '(' + '*'.join(d(f) for f in e) + ')' if e else '1'
        return f'({e["before"]}+{d(e["term"])}+{e["after"]})'
    return f"[{' '.join(f'P{k}({s})' for k, s in enumerate(ps['psizes']))} -> {', '.join(d(e) for e in ps['vaxes'])} | default {ps['default']}" + \
           (f" | stride0 {ps['expand']}]" if ps.get('expand') else ']')


# ------------------------------------------------------------------------------ realisation

def realise(fggs_indices, ps, dtype, shared_axes=None):
    """pattern spec -> PatternedTensor.  shared_axes: optional dict paxis-number -> an existing
    PhysicalAxis object to re-use (cross-operand sharing, forces `freshen` inside the library)."""
    import torch
    I = fggs_indices
    psizes = ps['psizes']
    paxes = []
    for k, n in enumerate(psizes):
        if shared_axes and k in shared_axes:
            paxes.append(shared_axes[k])
        else:
            paxes.append(I.PhysicalAxis(n))

    def mk(e):
        if isinstance(e, int):
            return paxes[e]
        if isinstance(e, list):
            return I.productAxis(mk(f) for f in e)
        return I.SumAxis(e['before'], mk(e['term']), e['after'])
    vaxes = tuple(mk(e) for e in ps['vaxes'])
    physical = make_physical(ps, dtype)
    return I.PatternedTensor(physical, tuple(paxes), vaxes, ps['default'])


def make_physical(ps, dtype):
    import torch
    psizes = ps['psizes']
    expand = ps.get('expand') or []
    if not psizes:
        return torch.tensor(ps['physical'], dtype=dtype)
    t = torch.tensor(ps['physical'], dtype=dtype)
    if tuple(t.shape) != tuple(psizes):
        t = t.reshape(psizes)
    if expand:
        idx = tuple(slice(0, 1) if k in expand else slice(None) for k in range(len(psizes)))
        t = t[idx].clone().expand(psizes)
    return t


def common_types(rng, ndim_choices=(1, 2, 2, 3), depth=2, max_numel=12, max_total=400, allow_zero=False):
    """list of index types, one per dimension, total numel <= max_total"""
    for _ in range(100):
        nd = rng.choice(ndim_choices)
        ts = [gen_type(rng, depth, max_numel, allow_zero=allow_zero) for _ in range(nd)]
        tot = 1
        for T in ts:
            tot *= t_numel(T)
        if tot <= max_total:
            return ts
    return [('atom', 3)]


def realise_sharing(fggs_indices, rng, ps, dtype, other, share_p=0.3):
    """realise ps, re-using (injectively) PhysicalAxis objects of the already realised tensor
    `other` for axes of equal size -- the library must then `freshen` one operand itself"""
    share = {}
    if rng.random() < share_p:
        used = set()
        for k2, n2 in enumerate(ps['psizes']):
            cands = [k for k in other.paxes if k._numel == n2 and n2 != 1 and id(k) not in used]
            if cands and rng.random() < 0.6:
                ax = rng.choice(cands)
                used.add(id(ax))
                share[k2] = ax
    return realise(fggs_indices, ps, dtype, shared_axes=share or None), bool(share)


def zero_summand_types(rng, max_numel=8):
    """dimension types whose first dimension is a sum type with a zero-size summand between
    two non-empty ones: the only WELL-TYPED way for two patterns of one dimension to agree on
    SumAxis.before and differ on SumAxis.after (or vice versa).  Overlapping injections are
    what the library itself calls an index type mismatch, and are never generated."""
    a, b = rng.randint(1, 3), rng.randint(1, 3)
    cs = [('atom', a), ('atom', 0), ('atom', b)]
    if rng.random() < 0.3:
        cs.insert(rng.choice([0, 3]), ('atom', rng.randint(1, 2)))
    ts = [('sum', tuple(cs))]
    for _ in range(rng.choice([0, 1, 1, 2])):
        ts.append(gen_type(rng, 1, max(2, max_numel // 2)))
    rng.shuffle(ts)
    return ts


def gen_pattern_pair_same_before(rng, value_fn, default_fn, tries=60, **kw):
    """(types, p1, p2) where some dimension of p1 and p2 are sum injections with equal `before`
    and different `after` or equal `after` and different `before` (falls back to whatever the
    last try gave; the caller counts via `same_before_differs_after`)"""
    ts = zero_summand_types(rng)
    p1 = p2 = None
    for _ in range(tries):
        p1 = gen_pattern(rng, ts, value_fn, default_fn(), **kw)
        p2 = gen_pattern(rng, ts, value_fn, default_fn(), **kw)
        if same_before_differs_after(p1, p2):
            break
    return ts, p1, p2


def same_before_differs_after(p1, p2):
    for e, f in zip(p1['vaxes'], p2['vaxes']):
        if isinstance(e, dict) and isinstance(f, dict):
            if (e['before'] == f['before']) != (e['after'] == f['after']):
                return True
    return False


def type_of_size(rng, n, depth=1):
    """random index type with exactly n elements"""
    opts = ['atom']
    if n >= 2:
        opts.append('sum')
    divs = [d for d in range(2, n) if n % d == 0]
    if divs:
        opts.append('prod')
    k = rng.choice(opts)
    if k == 'atom' or depth < 0:
        return ('atom', n)
    if k == 'sum':
        a = rng.randint(1, n - 1)
        return ('sum', (type_of_size(rng, a, depth - 1), type_of_size(rng, n - a, depth - 1)))
    d = rng.choice(divs)
    return ('prod', (type_of_size(rng, d, depth - 1), type_of_size(rng, n // d, depth - 1)))
