"""Locate and import the tree under test; process-wide determinism settings."""
import os, sys

VERIF = os.path.dirname(os.path.dirname(os.path.dirname(os.path.abspath(__file__))))
REPO = os.path.abspath(os.environ.get('RV_REPO', '/repo'))
DEPS = os.path.join(VERIF, '.deps')
GUARD = 'FGGS_VERIF'

sys.dont_write_bytecode = True
_ready = False

def ensure_deps():
    """icontract lives in /verif/.deps (git-ignored); install offline if missing."""
    if not os.path.isdir(os.path.join(DEPS, 'icontract')):
        import subprocess
        subprocess.run([sys.executable, '-m', 'pip', 'install', '-q', '--no-index',
                        '--find-links', '/opt/veriftools/wheels', '--no-deps',
                        '--target', DEPS, 'icontract', 'asttokens', 'six'],
                       stdout=subprocess.DEVNULL, stderr=subprocess.DEVNULL, check=False)
    if DEPS not in sys.path:
        sys.path.append(DEPS)   # appended: must not shadow /venv's typing_extensions

def setup():
    """Import fggs from REPO (asserted), one intra-op thread, hooks guard on."""
    global _ready
    if _ready:
        import fggs
        return fggs
    os.environ[GUARD] = '1'
    if sys.path[0] != REPO:
        sys.path.insert(0, REPO)
    import torch
    torch.set_num_threads(1)
    import fggs
    here = os.path.dirname(os.path.dirname(os.path.abspath(fggs.__file__)))
    if os.path.realpath(here) != os.path.realpath(REPO):
        raise RuntimeError(f'fggs imported from {here}, expected {REPO}')
    ensure_deps()
    _ready = True
    return fggs


def mod(name):
    """the real submodule (fggs/__init__ shadows e.g. fggs.sum_product with the function)"""
    import importlib
    setup()
    return importlib.import_module(name)
