"""./rv setup: offline install of icontract into .deps, oracle self-tests."""
import sys, os
from . import env


def main():
    env.ensure_deps()
    try:
        import icontract
        print('icontract', icontract.__version__)
    except Exception as e:
        print('WARNING: icontract not importable:', e)
    fggs = env.setup()
    print('fggs from', os.path.dirname(fggs.__file__))
    from ..oracle import selftest
    ok = selftest.run()
    os.makedirs(os.path.join(env.VERIF, 'out', 'logs'), exist_ok=True)
    os.makedirs(os.path.join(env.VERIF, 'evidence'), exist_ok=True)
    return 0 if ok else 1


if __name__ == '__main__':
    sys.exit(main())
