"""Regenerate MANIFEST.json from rvlib/checks/registry.py."""
import json, os, sys
from . import env
from ..checks import registry as R


def main():
    props = [json.loads(l) for l in open(os.path.join(env.VERIF, 'properties.jsonl'))]
    checks = []
    na = []
    for p in props:
        pid = p['id']
        if pid in R.CHECKS:
            c = R.CHECKS[pid]
            checks.append(dict(
                property_id=pid,
                quick_cmd=f'./rv check {pid} --tier quick',
                thorough_cmd=f'./rv check {pid} --tier thorough',
                evidence_file=f'evidence/{pid}.json',
                replay_cmd_template=f'./rv check {pid} --replay {{path}}',
                engine='rv',
                level_claimed=dict(category='exploration', text=c['text'], design_ref=c['design_ref']),
                level_note=c.get('note', R.LEVEL_NOTE_COMMON),
                technique=c['technique']))
        else:
            na.append(dict(property_id=pid, reason=R.NOT_BUILT.get(pid, 'check not built yet in this round; planned per DESIGN.md §4 (runtime monitoring applies)')))
    m = dict(
        version=1,
        setup_cmd='./rv setup',
        hooks=dict(
            guard='FGGS_VERIF',
            enable=('no source hooks: with FGGS_VERIF=1 the checks install run-time wrappers on the imported fggs modules '
                    '(rvlib/monitor/hooks.py, rvlib/monitor/repinv.py) and subprocess runs get them through '
                    'rvlib/monitor/site/sitecustomize.py on PYTHONPATH; checks import fggs from /repo working tree (python, no build step, bytecode cache bypassed)'),
            baseline_off_cmd='cd /repo && /venv/bin/python -m pytest -ra -q -p no:cacheprovider --timeout=900 --continue-on-collection-errors',
            source_commits=[],
            add_only=True),
        engines=[dict(name='rv', path='rv', serves_properties=sorted(R.CHECKS),
                      kind_free_text='runtime monitoring: generated workloads against the real library under hooks, judged by independent reference oracles; 3-valued verdicts; evidence + replay files')],
        checks=checks,
        notes=('exit 0 held / exit 1 VIOLATION (unlisted in known_findings.json) / exit 2 INCONCLUSIVE (a deciding monitor was not reached). '
               'VERIF_SEED and VERIF_TIER are honoured. Replay files under out/replays/.'),
        not_applicable=na)
    with open(os.path.join(env.VERIF, 'MANIFEST.json'), 'w') as f:
        json.dump(m, f, indent=1)
    print(f'MANIFEST.json: {len(checks)} checks, {len(na)} not claimed')


if __name__ == '__main__':
    main()
