"""Greedy shrinker for FGG specs: makes a witness readable; never decides anything."""
import copy
from ..gen import fggspec as G


def candidates(spec):
    # drop a rule
    for i in range(len(spec['rules'])):
        s = copy.deepcopy(spec)
        del s['rules'][i]
        yield s
    # drop an edge
    for i, r in enumerate(spec['rules']):
        for j in range(len(r['edges'])):
            s = copy.deepcopy(spec)
            del s['rules'][i]['edges'][j]
            yield s
    # drop an unattached internal node
    for i, r in enumerate(spec['rules']):
        used = {v for _, att in r['edges'] for v in att} | set(r['ext'])
        for v in range(len(r['nodes'])):
            if v not in used:
                s = copy.deepcopy(spec)
                rr = s['rules'][i]
                del rr['nodes'][v]
                rr['ext'] = [x - (x > v) for x in rr['ext']]
                rr['edges'] = [[l, [x - (x > v) for x in att]] for l, att in rr['edges']]
                yield s
    # simplify weights: set a whole factor to ones, or single entries to 1
    for t in spec['weights']:
        s = copy.deepcopy(spec)
        one = 1.0 if spec['wdomain'] == 'real' else 0.0
        if any(x != one for x in G.flat(s['weights'][t])):
            s['weights'][t] = G.map_nested(s['weights'][t], lambda x: one)
            s.pop('patterns', None)
            yield s


def cleanup(spec):
    """remove terminals/nonterminals no longer mentioned (keeps start)"""
    s = copy.deepcopy(spec)
    used = {l for r in s['rules'] for l, _ in r['edges']} | {r['lhs'] for r in s['rules']} | {s['start']}
    s['terminals'] = {t: v for t, v in s['terminals'].items() if t in used}
    s['weights'] = {t: v for t, v in s['weights'].items() if t in s['terminals']}
    if 'patterns' in s:
        s['patterns'] = {t: v for t, v in s['patterns'].items() if t in s['terminals']}
    s['nonterminals'] = {n: v for n, v in s['nonterminals'].items() if n in used}
    return s


def shrink(spec, still_fails, max_steps=400):
    """still_fails(spec) -> bool (must not raise).  Returns a smaller spec that still fails."""
    cur = spec
    steps = 0
    progress = True
    while progress and steps < max_steps:
        progress = False
        for cand in candidates(cur):
            steps += 1
            cand = cleanup(cand)
            try:
                ok = still_fails(cand)
            except Exception:
                ok = False
            if ok:
                cur = cand
                progress = True
                break
            if steps >= max_steps:
                break
    return cur
