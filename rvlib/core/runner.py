"""Master/worker runner: shards the cases of one check over worker subprocesses,
aggregates three-valued verdicts, writes evidence and replay files, sets the exit code.

exit 0: every explored case held (open known findings are printed as KNOWN-FINDING lines)
exit 1: >= 1 violation that known_findings.json does not list (VIOLATION lines printed)
exit 2: inconclusive (a deciding monitor was not reached, worker crash, watchdog, ...)
"""
import argparse, hashlib, importlib, json, os, signal, subprocess, sys, time, traceback

from . import env

OUT = os.path.join(env.VERIF, 'out')
MAX_WORKERS = 8


class CaseTimeout(Exception):
    pass


def _alarm(signum, frame):
    raise CaseTimeout()


def load_check(pid):
    return importlib.import_module(f'rvlib.checks.{pid.lower()}')


def jhash(obj, n=12):
    return hashlib.sha1(json.dumps(obj, sort_keys=True, default=str).encode()).hexdigest()[:n]


def in_repo_traceback(tb):
    """True if the innermost frame of the traceback is inside the library under test."""
    frames = traceback.extract_tb(tb)
    if not frames:
        return False, ''
    last = frames[-1]
    root = os.path.join(os.path.realpath(env.REPO), 'fggs') + os.sep
    fn = os.path.realpath(last.filename)
    # frames inside torch_semiring_einsum/torch called from fggs: walk back to the first non-site frame
    for fr in reversed(frames):
        f = os.path.realpath(fr.filename)
        if f.startswith(root):
            return True, f'{os.path.basename(f)}:{fr.name}'
        if f.startswith(os.path.realpath(env.VERIF) + os.sep):
            return False, ''
    return False, ''


# --------------------------------------------------------------------------- worker

def worker_main(pid, tier, seed, shard, nshards, budget, outpath, ncases):
    reach = None
    if os.environ.get('RV_REACH'):
        from rvlib.monitor import reach      # statement-reach audit (records only, decides nothing)
        if not reach.install(env.REPO):
            reach = None
    try:
        _worker_main(pid, tier, seed, shard, nshards, budget, outpath, ncases)
    finally:
        if reach is not None:
            reach.dump(os.path.join(OUT, 'reach', f'{pid}.{tier}.{seed}.{shard}.json'), f'{pid}.{tier}')


def _worker_main(pid, tier, seed, shard, nshards, budget, outpath, ncases):
    env.setup()
    mod = load_check(pid)
    plan = mod.plan(tier, seed)
    n = ncases if ncases else plan['n']
    case_timeout = plan.get('case_timeout', 60)
    t0 = time.time()
    agg = dict(evaluated=0, verdicts={}, classes={}, features={}, hooks={}, obs={}, keys=[],
               sets={}, violations=[], nviol=0, sigcount={}, samples=[], errors=[], timeouts=0,
               declined_by_class={}, cut_short=False, last_index=-1)
    keys = set()
    sets = {}
    signal.signal(signal.SIGALRM, _alarm)
    if hasattr(mod, 'worker_init'):
        mod.worker_init(tier, seed)
    for index in range(shard, n, nshards):
        if time.time() - t0 > budget:
            agg['cut_short'] = True
            break
        signal.setitimer(signal.ITIMER_REAL, case_timeout)
        try:
            res = mod.run_case(tier, seed, index)
        except CaseTimeout:
            agg['timeouts'] += 1
            continue
        except Exception as e:
            signal.setitimer(signal.ITIMER_REAL, 0)
            inrepo, where = in_repo_traceback(e.__traceback__)
            tbs = traceback.format_exc()
            if inrepo:
                res = dict(cls='crash', features=[], verdict='violated', key=f'crash{index}',
                           nontrivial=False,
                           violations=[dict(sig=f'crash:{type(e).__name__}:{where}',
                                            msg=f'uncaught {type(e).__name__}: {e}',
                                            traceback=tbs[-3000:])])
            else:
                if len(agg['errors']) < 5:
                    agg['errors'].append(dict(index=index, traceback=tbs[-4000:]))
                else:
                    agg['errors'].append(dict(index=index))
                continue
        finally:
            signal.setitimer(signal.ITIMER_REAL, 0)
        agg['evaluated'] += res.get('evals', 1)
        agg['last_index'] = index
        v = res.get('verdict', 'held')
        agg['verdicts'][v] = agg['verdicts'].get(v, 0) + 1
        c = res.get('cls', '-')
        agg['classes'][c] = agg['classes'].get(c, 0) + 1
        if v == 'declined':
            agg['declined_by_class'][c] = agg['declined_by_class'].get(c, 0) + 1
        for f in res.get('features', ()):
            agg['features'][f] = agg['features'].get(f, 0) + 1
        for k, x in res.get('hooks', {}).items():
            agg['hooks'][k] = agg['hooks'].get(k, 0) + x
        for k, x in res.get('obs', {}).items():
            agg['obs'][k] = agg['obs'].get(k, 0) + x
        for k, xs in res.get('sets', {}).items():
            s = sets.setdefault(k, set())
            if len(s) < 200000:
                s.update(xs)
        if 'keys' in res:
            keys.update(res['keys'])
        elif res.get('nontrivial') and v != 'declined':
            keys.add(res.get('key', str(index)))
        if res.get('sample') is not None and len(agg['samples']) < 3 and res.get('nontrivial'):
            agg['samples'].append(res['sample'])
        for viol in res.get('violations', ()):
            agg['nviol'] += 1
            sig = viol.get('sig', 'unspecified')
            agg['sigcount'][sig] = agg['sigcount'].get(sig, 0) + 1
            if agg['sigcount'][sig] <= 3:
                viol = dict(viol)
                viol.setdefault('index', index)
                viol.setdefault('cls', c)
                agg['violations'].append(viol)
    if hasattr(mod, 'worker_finish'):
        extra = mod.worker_finish()
        if extra:
            for k, x in extra.get('obs', {}).items():
                agg['obs'][k] = agg['obs'].get(k, 0) + x
            for k, xs in extra.get('sets', {}).items():
                sets.setdefault(k, set()).update(xs)
    agg['keys'] = sorted(keys)
    agg['sets'] = {k: sorted(map(str, s)) for k, s in sets.items()}
    agg['wall_s'] = time.time() - t0
    with open(outpath, 'w') as f:
        json.dump(agg, f, default=str)


# --------------------------------------------------------------------------- master

def load_findings():
    p = os.path.join(env.VERIF, 'known_findings.json')
    if not os.path.exists(p):
        return []
    with open(p) as f:
        return json.load(f)['findings']


def finding_matches(entry, pid, sig):
    import fnmatch
    if entry.get('property') != pid or entry.get('status') != 'open':
        return False
    pats = entry.get('sig')
    if isinstance(pats, str):
        pats = [pats]
    return any(fnmatch.fnmatchcase(sig, p) for p in pats)


def write_evidence(pid, tier, seed, coverage, assumptions, wall, nviol):
    evdir = os.path.join(env.VERIF, 'evidence')
    if os.path.realpath(env.REPO) != os.path.realpath('/repo'):
        evdir = os.path.join(OUT, 'evidence-scratch')     # self-test runs against a scratch copy never touch evidence/
    os.makedirs(evdir, exist_ok=True)
    ev = dict(property_id=pid, tier=tier, seed=seed, level='exploration', coverage=coverage,
              assumptions=assumptions, wall_s=round(wall, 2), violations=nviol)
    with open(os.path.join(evdir, f'{pid}.json'), 'w') as f:
        json.dump(ev, f, indent=1, default=str)
    if evdir.endswith('evidence') and tier == 'thorough':
        # evidence/<id>.json is rewritten by every run; thorough runs are long, so keep a copy of
        # what each of them observed under results/thorough/ (same format)
        hist = os.path.join(env.VERIF, 'results', 'thorough')
        os.makedirs(hist, exist_ok=True)
        with open(os.path.join(hist, f'{pid}-seed{seed}.json'), 'w') as f:
            json.dump(ev, f, indent=1, default=str)


def run_check(pid, tier, seed, budget=None, workers=None, ncases=None):
    t0 = time.time()
    mod = load_check(pid)          # the master stays light: torch is imported by the workers only
    plan = mod.plan(tier, seed)
    n = ncases if ncases else plan['n']
    budget = budget if budget else plan.get('budget_s', 90 if tier == 'quick' else 900)
    nshards = max(1, min(workers or plan.get('workers', MAX_WORKERS), 16, n))
    logdir = os.path.join(OUT, 'logs')
    os.makedirs(logdir, exist_ok=True)
    # Workers are separate interpreter processes (subprocess.Popen, never multiprocessing.Pool,
    # which hangs when a child dies; not os.fork either: forked siblings share anon_vma locks and
    # ran 4x slower per case on this sandbox).  Concurrent `import torch` is the fixed cost
    # (~5 s for 8 workers), so the worker count is kept moderate.
    procs = []
    wenv = dict(os.environ)
    wenv['PYTHONDONTWRITEBYTECODE'] = '1'
    wenv.setdefault('PYTHONHASHSEED', '0')
    wenv['PYTHONPATH'] = env.VERIF + os.pathsep + wenv.get('PYTHONPATH', '')
    wenv['RV_REPO'] = env.REPO
    wenv['OMP_NUM_THREADS'] = '1'
    wenv['MKL_NUM_THREADS'] = '1'
    for shard in range(nshards):
        outpath = os.path.join(logdir, f'{pid}.{tier}.{seed}.{os.getpid()}.{shard}.json')
        if os.path.exists(outpath):
            os.remove(outpath)
        errpath = outpath[:-5] + '.err'
        cmd = [sys.executable, '-B', '-m', 'rvlib.core.runner', '--worker', pid, '--tier', tier,
               '--seed', str(seed), '--shard', str(shard), '--nshards', str(nshards),
               '--budget', str(budget), '--out', outpath, '--cases', str(ncases or 0)]
        procs.append((subprocess.Popen(cmd, cwd=env.VERIF, env=wenv, stdout=subprocess.DEVNULL,
                                       stderr=open(errpath, 'w')), outpath, errpath))
    hard = budget + plan.get('case_timeout', 60) + 120
    inconclusive = []
    aggs = []
    for p, outpath, errpath in procs:
        left = max(1, hard - (time.time() - t0))
        try:
            rc = p.wait(timeout=left)
        except subprocess.TimeoutExpired:
            p.kill()
            p.wait()
            inconclusive.append(f'worker hard timeout ({outpath})')
            continue
        if rc != 0 or not os.path.exists(outpath):
            tail = ''
            try:
                tail = open(errpath).read()[-1500:]
            except Exception:
                pass
            inconclusive.append(f'worker exited rc={rc}: {tail}')
            continue
        with open(outpath) as f:
            aggs.append(json.load(f))
        for pth in (outpath, errpath):
            try:
                os.remove(pth)
            except OSError:
                pass

    # ---- merge
    tot = dict(evaluated=0, verdicts={}, classes={}, features={}, hooks={}, obs={}, sets={},
               violations=[], nviol=0, sigcount={}, samples=[], errors=[], timeouts=0,
               declined_by_class={}, cut_short=False)
    keys = set()
    for a in aggs:
        tot['evaluated'] += a['evaluated']
        tot['timeouts'] += a['timeouts']
        tot['nviol'] += a['nviol']
        tot['cut_short'] |= a['cut_short']
        for name in ('verdicts', 'classes', 'features', 'hooks', 'obs', 'sigcount', 'declined_by_class'):
            for k, x in a[name].items():
                tot[name][k] = tot[name].get(k, 0) + x
        for k, xs in a['sets'].items():
            tot['sets'].setdefault(k, set()).update(xs)
        keys.update(a['keys'])
        tot['violations'].extend(a['violations'])
        tot['samples'].extend(a['samples'])
        tot['errors'].extend(a['errors'])
    tot['distinct'] = len(keys)

    # ---- violations vs known findings
    findings = load_findings()
    unlisted = []
    known_hits = {}
    for sig, cnt in tot['sigcount'].items():
        m = [e for e in findings if finding_matches(e, pid, sig)]
        if m:
            known_hits[m[0]['id']] = known_hits.get(m[0]['id'], 0) + cnt
        else:
            unlisted.append(sig)
    repdir = os.path.join(OUT, 'replays', pid)
    os.makedirs(repdir, exist_ok=True)
    printed = set()
    for viol in tot['violations']:
        sig = viol.get('sig', 'unspecified')
        fname = f"{jhash(sig, 8)}-{viol.get('index', 'x')}{'' if os.path.realpath(env.REPO) == os.path.realpath('/repo') else '-scratch' + str(os.getpid())}.json"
        path = os.path.join(repdir, fname)
        rep = dict(property=pid, tier=tier, seed=seed, index=viol.get('index'), sig=sig,
                   known=sig not in unlisted, **{k: v for k, v in viol.items() if k not in ('sig', 'index')})
        with open(path, 'w') as f:
            json.dump(rep, f, indent=1, default=str)
        if sig in unlisted and sig not in printed:
            printed.add(sig)
            print(f'VIOLATION property={pid} replay={os.path.relpath(path, env.VERIF)}')
            print(f'  mechanism={sig} cases={tot["sigcount"][sig]} :: {str(viol.get("msg", ""))[:300]}')
    for e in findings:
        if e.get('property') == pid and e.get('status') == 'open':
            print(f"KNOWN-FINDING: property={pid} {e['id']}: {e['what']} (observed in {known_hits.get(e['id'], 0)} cases this run)")

    # ---- inconclusive conditions
    if tot['errors']:
        first = next((e for e in tot['errors'] if 'traceback' in e), tot['errors'][0])
        inconclusive.append(f"{len(tot['errors'])} harness errors; first: {first.get('traceback', '')[-800:]}")
    if tot['timeouts']:
        inconclusive.append(f"{tot['timeouts']} cases hit the per-case watchdog")
    if tot['evaluated'] == 0:
        inconclusive.append('no case was evaluated')
    for c, ncl in tot['classes'].items():
        d = tot['declined_by_class'].get(c, 0)
        if ncl >= 10 and d > 0.3 * ncl and not getattr(mod, 'ALLOW_DECLINE', {}).get(c):
            inconclusive.append(f'class {c}: {d}/{ncl} cases declined by the oracle')
    extra, more = {}, []
    if hasattr(mod, 'finalize'):
        try:
            extra, more = mod.finalize(tot, tier, seed)
        except Exception:
            more = ['finalize failed: ' + traceback.format_exc()[-800:]]
    inconclusive.extend(more)

    coverage = dict(
        evaluations=tot['evaluated'],
        distinct_nontrivial=tot['distinct'],
        rule=mod.RULE,
        samples=tot['samples'][:5],
        verdicts=tot['verdicts'],
        classes=tot['classes'],
        features=tot['features'],
        hook_activations=tot['hooks'],
        observed=tot['obs'],
        distinct_observed={k: len(v) for k, v in tot['sets'].items()},
        planned_cases=n,
        cut_short_by_budget=tot['cut_short'],
        workers=nshards,
        violation_mechanisms=tot['sigcount'],
        known_findings_hit=known_hits,
        inconclusive_reasons=inconclusive,
        repo=env.REPO,
    )
    coverage.update(extra)
    wall = time.time() - t0
    try:
        write_evidence(pid, tier, seed, coverage, getattr(mod, 'ASSUMPTIONS', []), wall, tot['nviol'])
    except Exception:
        inconclusive.append('evidence write failed: ' + traceback.format_exc()[-500:])
    status = 'held'
    rc = 0
    if unlisted:
        status, rc = 'VIOLATED', 1
    elif inconclusive:
        status, rc = 'INCONCLUSIVE', 2
        for r in inconclusive:
            print(f'INCONCLUSIVE property={pid} reason={r[:1500]}')
    print(f'{pid} {tier} seed={seed}: {status}; evaluated={tot["evaluated"]} distinct_nontrivial={tot["distinct"]} '
          f'verdicts={tot["verdicts"]} violations={tot["nviol"]} (unlisted mechanisms: {len(unlisted)}) wall={wall:.1f}s')
    return rc


def replay(pid, path):
    env.setup()
    mod = load_check(pid)
    with open(path) as f:
        rep = json.load(f)
    print(f"replaying {pid} case index={rep.get('index')} tier={rep.get('tier')} seed={rep.get('seed')} mechanism={rep.get('sig')}")
    if hasattr(mod, 'replay'):
        res = mod.replay(rep)
    else:
        res = mod.run_case(rep['tier'], rep['seed'], rep['index'])
    viols = res.get('violations', [])
    findings = load_findings()
    unlisted = []
    for v in viols:
        m = [e for e in findings if finding_matches(e, pid, v.get('sig', ''))]
        if m:
            print(f"KNOWN-FINDING: property={pid} {m[0]['id']}: mechanism {v.get('sig')} (listed in known_findings.json)")
        else:
            unlisted.append(v)
            print(json.dumps(v, indent=1, default=str)[:6000])
    if unlisted:
        print(f'VIOLATION property={pid} replay={path}')
        return 1
    print('replay: no violation on the current tree' + (' other than listed known findings' if viols else ''))
    return 0


def main(argv=None):
    ap = argparse.ArgumentParser(prog='rv')
    ap.add_argument('--worker', default=None)
    ap.add_argument('--check', default=None)
    ap.add_argument('--tier', default=os.environ.get('VERIF_TIER', 'quick'))
    ap.add_argument('--seed', type=int, default=int(os.environ.get('VERIF_SEED', '0') or 0))
    ap.add_argument('--shard', type=int, default=0)
    ap.add_argument('--nshards', type=int, default=1)
    ap.add_argument('--budget', type=float, default=None)
    ap.add_argument('--workers', type=int, default=None)
    ap.add_argument('--cases', type=int, default=0)
    ap.add_argument('--out', default=None)
    ap.add_argument('--replay', default=None)
    a = ap.parse_args(argv)
    if a.worker:
        worker_main(a.worker, a.tier, a.seed, a.shard, a.nshards, a.budget, a.out, a.cases)
        return 0
    if a.replay:
        return replay(a.check, a.replay)
    return run_check(a.check, a.tier, a.seed, a.budget, a.workers, a.cases)


if __name__ == '__main__':
    sys.exit(main())
