"""./rv all [--tier quick] [--seeds 0,1,2] [--only C01,C02]: run every registered check, summarise."""
import argparse, json, os, subprocess, sys, time
from . import env
from ..checks import registry as R


def main():
    ap = argparse.ArgumentParser()
    ap.add_argument('--tier', default='quick')
    ap.add_argument('--seeds', default=os.environ.get('VERIF_SEED', '0'))
    ap.add_argument('--only', default='')
    a = ap.parse_args()
    pids = sorted(R.CHECKS)
    if a.only:
        pids = [p for p in pids if p in a.only.split(',')]
    bad = 0
    for seed in a.seeds.split(','):
        for pid in pids:
            t0 = time.time()
            r = subprocess.run([os.path.join(env.VERIF, 'rv'), 'check', pid, '--tier', a.tier, '--seed', seed], cwd=env.VERIF, capture_output=True, text=True)
            last = (r.stdout.strip().splitlines() or ['?'])[-1]
            flag = 'ok ' if r.returncode == 0 else 'VIOLATION' if r.returncode == 1 else 'INCONCLUSIVE'
            if r.returncode:
                bad += 1
                for l in r.stdout.splitlines():
                    if l.startswith(('VIOLATION', 'INCONCLUSIVE', '  mechanism')):
                        print('    ' + l[:400])
            print(f'{flag:12s} seed={seed} {last[:200]}  [{time.time() - t0:.0f}s]', flush=True)
    print(f'{bad} runs need attention')
    return 1 if bad else 0


if __name__ == '__main__':
    sys.exit(main())
