"""Run-time wrappers on the imported library (no source edits).  Enabled only under FGGS_VERIF=1.

    with Hooks() as h:
        h.wrap(module_or_class, 'name', lambda orig: wrapper)   # counts activations in h.count
        ...
Every wrapper is removed on exit.  Names bound early elsewhere must be patched at each site.
"""
import functools, os


class Hooks:
    def __init__(self):
        self._undo = []
        self.count = {}
        self.events = []
        self.enabled = os.environ.get('FGGS_VERIF') == '1'

    def __enter__(self):
        return self

    def __exit__(self, *exc):
        self.remove()
        return False

    def remove(self):
        for obj, name, had, orig in reversed(self._undo):
            if had:
                setattr(obj, name, orig)
            else:
                try:
                    delattr(obj, name)
                except AttributeError:
                    pass
        self._undo = []

    def hit(self, key, n=1):
        self.count[key] = self.count.get(key, 0) + n

    def wrap(self, obj, name, make, key=None, static=False):
        """replace obj.name by make(original); returns False when the attribute does not exist
        (then the hook counter stays 0 and the check reports inconclusive)"""
        if not self.enabled:
            return False
        key = key or f'{getattr(obj, "__name__", obj)}.{name}'
        self.count.setdefault(key, 0)
        if not hasattr(obj, name):
            return False
        raw = obj.__dict__.get(name, None) if hasattr(obj, '__dict__') else None
        orig = getattr(obj, name)
        had = raw is not None
        new = make(orig)
        if isinstance(raw, staticmethod) or static:
            new = staticmethod(new)
        self._undo.append((obj, name, had, raw if had else orig))
        setattr(obj, name, new)
        return True

    def spy(self, obj, name, on_call=None, on_return=None, key=None, static=False):
        """count calls; optional callbacks on_call(args, kwargs), on_return(result, args, kwargs)"""
        key = key or f'{getattr(obj, "__name__", obj)}.{name}'

        def make(orig):
            @functools.wraps(orig)
            def w(*a, **k):
                self.hit(key)
                if on_call:
                    on_call(a, k)
                r = orig(*a, **k)
                if on_return:
                    on_return(r, a, k)
                return r
            return w
        return self.wrap(obj, name, make, key=key, static=static)
