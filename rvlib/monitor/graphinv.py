"""Well-formedness invariants, public-accessor snapshots and icontract class invariants for
Graph / HRG / FactorGraph / FGG (C16).  All conditions use the public API of the objects."""


def graph_defects(g):
    """list of invariant breaches of a Graph (or FactorGraph)"""
    bad = []
    nodes = list(g.nodes())
    edges = list(g.edges())
    nset = set(nodes)
    nids = [n.id for n in nodes]
    eids = [e.id for e in edges]
    if len(set(nids)) != len(nids):
        bad.append('node ids not unique')
    if len(set(eids)) != len(eids):
        bad.append('edge ids not unique')
    for n in nodes:
        if not g.has_node_id(n.id):
            bad.append(f'node {n.id} listed but has_node_id is False')
    for e in edges:
        for n in e.nodes:
            if n not in nset:
                bad.append(f'edge {e.id} attached to node {n.id}:{n.label.name} which is not a node of the graph')
                break
        if tuple(n.label for n in e.nodes) != tuple(e.label.type):
            bad.append(f'edge {e.id}: attachment labels differ from the label type')
    for n in g.ext:
        if n not in nset:
            bad.append(f'external node {n.id}:{n.label.name} is not a node of the graph')
            break
    if tuple(n.label for n in g.ext) != tuple(g.type) or g.arity != len(g.ext):
        bad.append('type/arity disagree with ext')
    byname = {}
    for e in edges:
        if e.label.name in byname and byname[e.label.name] != e.label:
            bad.append(f'edge-label name {e.label.name} denotes two labels')
        byname[e.label.name] = e.label
    return bad


def label_table_defects(x, edges_labels=(), node_labels=()):
    bad = []
    names = [l.name for l in x.edge_labels()]
    if len(set(names)) != len(names):
        bad.append('edge label table has duplicate names')
    for l in x.edge_labels():
        if not x.has_edge_label_name(l.name) or x.get_edge_label(l.name) != l:
            bad.append(f'edge label table inconsistent at {l.name}')
    for l in edges_labels:
        if not x.has_edge_label_name(l.name):
            bad.append(f'edge label {l.name} in use but not in the label table')
        elif x.get_edge_label(l.name) != l:
            bad.append(f'edge-label name {l.name} denotes two labels (table vs use)')
    for l in node_labels:
        if not x.has_node_label_name(l.name):
            bad.append(f'node label {l.name} in use but not in the label table')
    return bad


def graph_full_defects(g):
    bad = graph_defects(g)
    bad += label_table_defects(g, [e.label for e in g.edges()], [n.label for n in g.nodes()])
    return bad


def hrg_defects(h):
    bad = []
    used_e, used_n = [], []
    try:
        start = h.start
    except AttributeError:
        start = None
    if start is not None:
        if start.is_terminal:
            bad.append('start symbol is a terminal')
        used_e.append(start)
    for r in h.all_rules():
        if r.lhs.is_terminal:
            bad.append(f'rule with terminal lhs {r.lhs.name}')
        if tuple(r.lhs.type) != tuple(r.rhs.type):
            bad.append(f'rule {r.lhs.name}: lhs type differs from rhs type')
        for d in graph_defects(r.rhs):
            bad.append(f'rule {r.lhs.name} rhs: {d}')
        used_e.append(r.lhs)
        used_e.extend(e.label for e in r.rhs.edges())
        used_n.extend(n.label for n in r.rhs.nodes())
        if r not in h.rules(r.lhs):
            bad.append(f'rule of {r.lhs.name} in all_rules() but not in rules(lhs)')
    byname = {}
    for l in used_e:
        if l.name in byname and byname[l.name] != l:
            bad.append(f'edge-label name {l.name} denotes two labels')
        byname[l.name] = l
    bad += label_table_defects(h, used_e, used_n)
    nts, ts = list(h.nonterminals()), list(h.terminals())
    if any(l.is_terminal for l in nts) or any(l.is_nonterminal for l in ts):
        bad.append('nonterminals()/terminals() misclassify')
    if sorted(l.name for l in nts + ts) != sorted(l.name for l in h.edge_labels()):
        bad.append('nonterminals()+terminals() != edge_labels()')
    return bad


def interp_defects(x):
    bad = []
    for name, fac in x.factors.items():
        if not x.has_edge_label_name(name):
            bad.append(f'factor bound to unknown edge label {name}')
            continue
        el = x.get_edge_label(name)
        if el.is_nonterminal:
            bad.append(f'factor bound to nonterminal {name}')
        if fac.arity != el.arity:
            bad.append(f'factor {name}: arity {fac.arity} != label arity {el.arity}')
            continue
        for nl, dom in zip(el.type, fac.domains):
            if nl.name not in x.domains:
                bad.append(f'factor {name}: node label {nl.name} has no domain')
            elif x.domains[nl.name] != dom:
                bad.append(f'factor {name}: domain of {nl.name} differs from the factor\'s')
    for name in x.domains:
        if not x.has_node_label_name(name):
            bad.append(f'domain bound to unknown node label {name}')
    return bad


def defects(x):
    n = type(x).__name__
    if n == 'Graph':
        return graph_full_defects(x)
    if n == 'FactorGraph':
        return graph_full_defects(x) + interp_defects(x)
    if n == 'HRG':
        return hrg_defects(x)
    if n == 'FGG':
        return hrg_defects(x) + interp_defects(x)
    raise TypeError(n)


# ------------------------------------------------------------------------------ snapshots

def snap_label(l):
    return (l.name, tuple(x.name for x in l.type), l.is_terminal)


def snap_graph(g):
    return dict(nodes=tuple((n.id if n.persist_id else ('#', n.id), n.label.name, n.persist_id) for n in g.nodes()),
                edges=tuple((e.id if e.persist_id else ('#', e.id), snap_label(e.label), tuple(n.id for n in e.nodes), e.persist_id) for e in g.edges()),
                ext=tuple(n.id for n in g.ext), type=tuple(l.name for l in g.type), arity=g.arity,
                node_labels=tuple(sorted(l.name for l in g.node_labels())),
                edge_labels=tuple(sorted(snap_label(l) for l in g.edge_labels())),
                text=str(g))


def _dom_repr(d):
    # read through size()/values, never through to_json(): the JSON writers are themselves monitored queries
    return repr((type(d).__name__, d.size(), [(type(v).__name__, v) for v in getattr(d, 'values', [])]))


def snap_interp(x):
    doms = {k: _dom_repr(d) for k, d in x.domains.items()}
    facs = {}
    for k, f in x.factors.items():
        w = getattr(f, 'weights', None)
        facs[k] = (tuple(_dom_repr(d) for d in f.domains), repr(w.to_dense().tolist()) if w is not None else repr(getattr(f, 'weight', None)))
    return dict(domains=doms, factors=facs)


def snap(x):
    n = type(x).__name__
    if n == 'Graph':
        return snap_graph(x)
    if n == 'FactorGraph':
        s = snap_graph(x)
        s.update(snap_interp(x))
        return s
    s = dict(start=snap_label(x.start) if getattr(x, '_start', None) is not None else None,
             node_labels=tuple(sorted(l.name for l in x.node_labels())),
             edge_labels=tuple(sorted(snap_label(l) for l in x.edge_labels())),
             nonterminals=tuple(sorted(l.name for l in x.nonterminals())),
             terminals=tuple(sorted(l.name for l in x.terminals())),
             rules=tuple((snap_label(r.lhs), tuple(sorted((k, repr(v)) for k, v in snap_graph(r.rhs).items()))) for r in x.all_rules()),
             text=str(x))
    if n == 'FGG':
        s.update(snap_interp(x))
    return s


# ------------------------------------------------------------------------------ icontract

class InvariantBroken(Exception):
    pass


COUNT = {'evaluations': 0}
_installed = False


def _graph_ok(self):
    COUNT['evaluations'] += 1
    return not graph_defects(self)


def _hrg_ok(self):
    COUNT['evaluations'] += 1
    # only the structural part that no aliasing history can break legitimately is enforced here
    return all(not l.is_terminal for l in [self.start] if getattr(self, '_start', None) is not None)


def install_icontract(fggs):
    """class invariants on Graph and HRG (and thereby FactorGraph, FGG): evaluated by icontract
    around every public method, on every object the library itself constructs as well."""
    global _installed
    if _installed:
        return True
    try:
        import icontract
    except Exception:
        return False
    M = __import__('importlib').import_module('fggs.fggs')
    icontract.invariant(_graph_ok, error=lambda self: InvariantBroken('; '.join(graph_defects(self))[:500]))(M.Graph)
    icontract.invariant(_hrg_ok, error=lambda self: InvariantBroken('start symbol is terminal'))(M.HRG)
    _installed = True
    return True
