"""FGGS_VERIF=1 hook on PatternedTensor.__post_init__: every PatternedTensor the library constructs
is checked against the representation invariant (oracle/axis_ref.check_invariant):
physical size = sizes of paxes; paxes pairwise distinct, none of size 1; free axes of vaxes =
paxes; the index map computed independently of Axis.stride is injective and in range.
The structural part runs on every construction, the exhaustive part is memoised on the pattern's
shape.  Breaches are recorded (not raised) so that the workload continues and the boundary
monitors still see the consequences."""
import os
from ..oracle import axis_ref as A


class RepInv:
    def __init__(self):
        self.constructions = 0
        self.breaches = []
        self.memo = {}
        self.max_depth = 0
        self._orig = None
        self._cls = None

    def install(self, indices_module):
        if os.environ.get('FGGS_VERIF') != '1':
            return False
        cls = indices_module.PatternedTensor
        if getattr(cls.__post_init__, '_rv_wrapped', False):
            return True
        orig = cls.__post_init__
        mon = self

        def __post_init__(self_):
            orig(self_)
            mon.constructions += 1
            try:
                msg = A.check_invariant(self_, mon.memo)
            except Exception as e:      # an invariant we cannot even evaluate is a breach too
                msg = f'invariant evaluation failed: {type(e).__name__}: {e}'
            if msg and len(mon.breaches) < 50:
                import traceback
                where = [f'{os.path.basename(f.filename)}:{f.name}:{f.lineno}' for f in traceback.extract_stack()[:-1]
                         if os.sep + 'fggs' + os.sep in f.filename][-3:]
                mon.breaches.append(dict(msg=msg, where=where, depict=_depict(self_)))
        __post_init__._rv_wrapped = True
        self._orig, self._cls = orig, cls
        cls.__post_init__ = __post_init__
        return True

    def remove(self):
        if self._cls is not None:
            self._cls.__post_init__ = self._orig
            self._cls = None

    def take(self):
        """breaches since the last call"""
        b, self.breaches = self.breaches, []
        return b

    def depth(self):
        def d(key):
            if not isinstance(key, tuple) or not key:
                return 0
            if key[0] == 'p':
                return 0
            return 1 + max((d(k) for k in key[1:] if isinstance(k, tuple)), default=0)
        return max((max((d(e) for e in k[0]), default=0) for k in self.memo), default=0)


def _depict(pt):
    try:
        names = {}
        return str([A.ax_shape_key(e, names) for e in pt.vaxes])[:300] + f' paxes={[k._numel for k in pt.paxes]} physical={tuple(pt.physical.size())}'
    except Exception:
        return '?'


MON = RepInv()
