"""Reach audit: which statements of the library did the monitored workloads actually execute?

Enabled by RV_REACH=1 (never in registered commands' verdict path: it only records).  Uses
sys.monitoring LINE events restricted to code objects of <repo>/fggs and <repo>/bin; each line's
callback returns DISABLE after the first hit, so the steady-state cost is ~0.

`python -m rvlib.monitor.reach report` merges out/reach/*.json and compares with the executable
lines of every module (walked from the compiled code objects), printing per-file percentages and
the functions no workload entered.  The result tells us where the monitors are blind; it decides
no property.
"""
import json
import os
import sys
import types

TOOL = 3
_hits = set()
_prefixes = ()


def _line(code, lineno):
    _hits.add((code.co_filename, lineno))
    return sys.monitoring.DISABLE


def _start(code, offset):
    fn = code.co_filename
    if fn.startswith(_prefixes):
        sys.monitoring.set_local_events(TOOL, code, sys.monitoring.events.LINE)
    return sys.monitoring.DISABLE


def install(repo):
    global _prefixes
    _prefixes = (os.path.join(repo, 'fggs') + os.sep, os.path.join(repo, 'bin') + os.sep)
    m = sys.monitoring
    try:
        m.use_tool_id(TOOL, 'rv-reach')
    except ValueError:
        return False
    m.register_callback(TOOL, m.events.PY_START, _start)
    m.register_callback(TOOL, m.events.LINE, _line)
    m.set_events(TOOL, m.events.PY_START)
    return True


def dump(path, label):
    os.makedirs(os.path.dirname(path), exist_ok=True)
    by = {}
    for fn, ln in _hits:
        by.setdefault(fn, []).append(ln)
    with open(path, 'w') as f:
        json.dump(dict(label=label, hits={k: sorted(v) for k, v in by.items()}), f)


def executable_lines(path):
    """{function qualname: set(lines)} from the compiled module (docstring-only lines excluded
    as far as co_lines allows)"""
    src = open(path).read()
    top = compile(src, path, 'exec')
    out = {}

    def walk(code, qual):
        lines = {ln for _, _, ln in code.co_lines() if ln is not None and ln > 0}
        # the `def` line itself belongs to the enclosing scope; RESUME maps to the def line
        lines.discard(code.co_firstlineno) if qual != '<module>' else None
        out.setdefault(qual, set()).update(lines)
        for c in code.co_consts:
            if isinstance(c, types.CodeType):
                walk(c, (qual + '.' if qual != '<module>' else '') + c.co_name)
    walk(top, '<module>')
    return out


def report(repo, reachdir, outpath=None, only=None):
    import glob
    hits = {}
    labels = {}
    for p in glob.glob(os.path.join(reachdir, '*.json')):
        d = json.load(open(p))
        if only and d['label'].split('.')[0] not in only:
            continue
        for fn, lns in d['hits'].items():
            rel = os.path.relpath(fn, repo)
            hits.setdefault(rel, set()).update(lns)
            for ln in lns:
                labels.setdefault((rel, ln), set()).add(d['label'].split('.')[0])
    rows = []
    unentered = {}
    partial = {}
    for sub in ('fggs', 'bin'):
        for fn in sorted(os.listdir(os.path.join(repo, sub))):
            if not fn.endswith('.py'):
                continue
            rel = os.path.join(sub, fn)
            ex = executable_lines(os.path.join(repo, rel))
            tot = set().union(*ex.values()) if ex else set()
            got = hits.get(rel, set()) & tot
            rows.append((rel, len(got), len(tot)))
            for q, lines in ex.items():
                if q == '<module>' or not lines:
                    continue
                h = lines & hits.get(rel, set())
                if not h:
                    unentered.setdefault(rel, []).append((min(lines), q))
                elif len(h) < len(lines):
                    partial.setdefault(rel, []).append((q, sorted(lines - h)))
    res = dict(files={r: dict(reached=a, executable=b) for r, a, b in rows},
               never_entered={r: [f'{q} (line {ln})' for ln, q in sorted(v)] for r, v in unentered.items()},
               partially_reached={r: {q: l for q, l in v} for r, v in partial.items()})
    if outpath:
        with open(outpath, 'w') as f:
            json.dump(res, f, indent=1)
    for r, a, b in rows:
        print(f'{r:28s} {a:5d}/{b:5d}  {100.0 * a / max(1, b):5.1f}%')
    for r, v in unentered.items():
        print(f'-- never entered in {r}:')
        for ln, q in sorted(v):
            print(f'     {q} (line {ln})')
    return res


if __name__ == '__main__':
    here = os.path.dirname(os.path.dirname(os.path.dirname(os.path.abspath(__file__))))
    repo = os.environ.get('RV_REPO', '/repo')
    if sys.argv[1:2] == ['report']:
        only = set(sys.argv[2].split(',')) if len(sys.argv) > 2 and not sys.argv[2].startswith('--') else None
        res = report(repo, os.path.join(here, 'out', 'reach'), os.path.join(here, 'out', 'reach-report.json'), only)
        if '--partial' in sys.argv:
            for r, v in res['partially_reached'].items():
                for q, l in v.items():
                    print(f'{r}:{q}: unreached lines {l}')
