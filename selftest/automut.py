"""Systematic mutation sweep of the library (validation of the monitors, not a registered check).

For each sampled single-point mutation of /repo/fggs/*.py (comparison / boolean / arithmetic
operator swaps, negated conditions, off-by-one constants, deleted simple statements, swapped
break/continue), applied to a scratch copy under /tmp:

  1. run the quick checks of the properties anchored in that file (FILE_PROPS) against the copy
     (RV_REPO=<scratch>), stopping at the first that reports a VIOLATION;
  2. if none fires, run the repository's own test suite on the copy;
  3. classify: caught | killed-by-tests-only | SURVIVOR (passes tests, no check fires) | broken
     (does not import).

Survivors are then read by hand: equivalent mutant (no observable change), behaviour outside the
20 properties, or a blind spot -> strengthen the check.  Results: out/automut/<file>.jsonl.

    python -m selftest.automut --files indices.py,multi.py --per-file 40 --jobs 4 [--seed 0]
"""
import argparse, ast, json, os, random, shutil, subprocess, sys, tempfile, time
from concurrent.futures import ThreadPoolExecutor

HERE = os.path.dirname(os.path.abspath(__file__))
VERIF = os.path.dirname(HERE)

FILE_PROPS = {
    'sum_product.py': ['C01', 'C02', 'C03', 'C12', 'C11'],
    'viterbi.py': ['C04', 'C12'],
    'factorize.py': ['C10', 'C05'],
    'indices.py': ['C06', 'C07', 'C13', 'C08', 'C09', 'C01'],
    'semirings.py': ['C08', 'C09', 'C07', 'C02'],
    'multi.py': ['C09', 'C13', 'C02', 'C18'],
    'fggs.py': ['C16', 'C14', 'C20', 'C15', 'C18'],
    'formats.py': ['C14'],
    'derivations.py': ['C15', 'C04'],
    'conjunction.py': ['C17'],
    'utils.py': ['C19', 'C05', 'C17'],
    'domains.py': ['C20', 'C14'],
    'factors.py': ['C20', 'C14'],
    'equation.py': ['C07', 'C01'],
}
SKIP_FUNCS = {'depict', '__repr__', '__str__', 'graph_to_dot', 'graph_to_tikz', 'hrg_to_tikz', 'escape_to_html', 'escape_to_latex',
              '_get_format', 'debugging_letterer', 'make_timer', 'timer', '_formatwarning', 'depict_einsum', 'naive_graph_isomorphism',
              'weights_to_dict_json', 'to_dict'}

CMP = {ast.Lt: ast.LtE, ast.LtE: ast.Lt, ast.Gt: ast.GtE, ast.GtE: ast.Gt, ast.Eq: ast.NotEq, ast.NotEq: ast.Eq,
       ast.Is: ast.IsNot, ast.IsNot: ast.Is, ast.In: ast.NotIn, ast.NotIn: ast.In}
BIN = {ast.Add: ast.Sub, ast.Sub: ast.Add, ast.Mult: ast.Add, ast.FloorDiv: ast.Mult, ast.Mod: ast.FloorDiv}


def candidates(src):
    """list of (kind, lineno, col, end_lineno, end_col, replacement_source)"""
    tree = ast.parse(src)
    out = []
    skip_ranges = []

    class V(ast.NodeVisitor):
        def __init__(self):
            self.fn = []

        def visit_FunctionDef(self, n):
            if n.name in SKIP_FUNCS:
                return
            self.fn.append(n.name)
            for d in n.body:
                self.visit(d)
            self.fn.pop()
        visit_AsyncFunctionDef = visit_FunctionDef

        def visit_If(self, n):
            # `if __debug__:` blocks only warn / assert
            t = n.test
            if isinstance(t, ast.Name) and t.id == '__debug__':
                for d in n.orelse:
                    self.visit(d)
                return
            if self.fn:
                neg = ast.UnaryOp(op=ast.Not(), operand=t)
                out.append(('negate-if', t.lineno, t.col_offset, t.end_lineno, t.end_col_offset, ast.unparse(neg)))
            self.generic_visit(n)

        def visit_Assert(self, n):
            return

        def visit_Raise(self, n):
            return

        def visit_AnnAssign(self, n):
            if n.value is not None:
                self.visit(n.value)

        def visit_arguments(self, n):
            return

        def visit_Compare(self, n):
            if self.fn and len(n.ops) == 1 and type(n.ops[0]) in CMP:
                new = ast.Compare(left=n.left, ops=[CMP[type(n.ops[0])]()], comparators=n.comparators)
                out.append(('cmp', n.lineno, n.col_offset, n.end_lineno, n.end_col_offset, ast.unparse(new)))
            self.generic_visit(n)

        def visit_BoolOp(self, n):
            if self.fn:
                new = ast.BoolOp(op=ast.Or() if isinstance(n.op, ast.And) else ast.And(), values=n.values)
                out.append(('boolop', n.lineno, n.col_offset, n.end_lineno, n.end_col_offset, ast.unparse(new)))
            self.generic_visit(n)

        def visit_BinOp(self, n):
            strish = any(isinstance(x, (ast.JoinedStr,)) or (isinstance(x, ast.Constant) and isinstance(x.value, str)) for x in (n.left, n.right))
            if self.fn and type(n.op) in BIN and not strish:
                new = ast.BinOp(left=n.left, op=BIN[type(n.op)](), right=n.right)
                out.append(('binop', n.lineno, n.col_offset, n.end_lineno, n.end_col_offset, ast.unparse(new)))
            self.generic_visit(n)

        def visit_Constant(self, n):
            if self.fn and isinstance(n.value, int) and not isinstance(n.value, bool) and n.value in (0, 1, 2, -1):
                out.append(('const', n.lineno, n.col_offset, n.end_lineno, n.end_col_offset, repr(n.value + 1)))
            elif self.fn and isinstance(n.value, bool):
                out.append(('const', n.lineno, n.col_offset, n.end_lineno, n.end_col_offset, repr(not n.value)))

        def visit_Expr(self, n):
            if isinstance(n.value, ast.Constant):
                return      # docstring
            if self.fn and isinstance(n.value, ast.Call):
                f = n.value.func
                name = f.attr if isinstance(f, ast.Attribute) else getattr(f, 'id', '')
                if name not in ('warn', 'print'):
                    out.append(('del-stmt', n.lineno, n.col_offset, n.end_lineno, n.end_col_offset, 'pass'))
            self.generic_visit(n)

        def visit_AugAssign(self, n):
            if self.fn:
                out.append(('del-stmt', n.lineno, n.col_offset, n.end_lineno, n.end_col_offset, 'pass'))
            self.generic_visit(n)

        def visit_Break(self, n):
            if self.fn:
                out.append(('break->continue', n.lineno, n.col_offset, n.end_lineno, n.end_col_offset, 'continue'))

        def visit_Continue(self, n):
            if self.fn:
                out.append(('continue->break', n.lineno, n.col_offset, n.end_lineno, n.end_col_offset, 'break'))

    V().visit(tree)
    return out


def splice(src, m):
    kind, l0, c0, l1, c1, rep = m
    lines = src.split('\n')
    # ast columns are utf-8 byte offsets; the sources are ascii on the mutated lines in practice
    pre = lines[l0 - 1].encode()[:c0].decode()
    post = lines[l1 - 1].encode()[c1:].decode()
    if kind in ('negate-if', 'cmp', 'boolop', 'binop'):
        rep = '(' + rep + ')'
    new = pre + rep + post
    return '\n'.join(lines[:l0 - 1] + [new] + lines[l1:])


def run_one(fname, m, idx, tier='quick', workers=4):
    scratch = tempfile.mkdtemp(prefix='rv_amut_', dir='/tmp')
    t0 = time.time()
    rec = dict(file=fname, index=idx, kind=m[0], line=m[1], replacement=m[5])
    try:
        dst = os.path.join(scratch, 'repo')
        shutil.copytree('/repo', dst, ignore=shutil.ignore_patterns('.git', '__pycache__', '*.egg-info', 'examples', 'images', 'docs'))
        path = os.path.join(dst, 'fggs', fname)
        src = open(path).read()
        rec['original'] = src.split('\n')[m[1] - 1].strip()[:200]
        new = splice(src, m)
        try:
            compile(new, path, 'exec')
        except SyntaxError as e:
            rec['status'] = 'broken'
            rec['detail'] = f'syntax: {e}'
            return rec
        open(path, 'w').write(new)
        rec['mutated'] = new.split('\n')[m[1] - 1].strip()[:200]
        r = subprocess.run(['/venv/bin/python', '-B', '-c', f'import sys; sys.path.insert(0, {dst!r}); import fggs'], capture_output=True, text=True, timeout=300)
        if r.returncode != 0:
            rec['status'] = 'broken'
            rec['detail'] = r.stderr[-300:]
            return rec
        env = dict(os.environ, RV_REPO=dst)
        rec['checks'] = {}
        for pid in FILE_PROPS[fname]:
            r = subprocess.run([os.path.join(VERIF, 'rv'), 'check', pid, '--tier', tier, '--workers', str(workers)], cwd=VERIF, env=env,
                               capture_output=True, text=True, timeout=3600)
            fired = r.returncode == 1 and 'VIOLATION property=' + pid in r.stdout
            mech = [l.strip()[:160] for l in r.stdout.splitlines() if l.strip().startswith('mechanism=')][:1]
            rec['checks'][pid] = dict(rc=r.returncode, mech=mech)
            if fired:
                rec['status'] = 'caught'
                rec['by'] = pid
                return rec
        r = subprocess.run(['/venv/bin/python', '-m', 'pytest', '-q', '-x', '-p', 'no:cacheprovider', '-n', '4'], cwd=dst,
                           capture_output=True, text=True, timeout=1800)
        rec['tests_pass'] = r.returncode == 0
        rec['status'] = 'SURVIVOR' if rec['tests_pass'] else 'killed-by-tests-only'
        if any(v['rc'] == 2 for v in rec['checks'].values()):
            rec['note'] = 'some check was inconclusive (exit 2)'
        return rec
    except subprocess.TimeoutExpired:
        rec['status'] = 'timeout'
        return rec
    finally:
        rec['wall'] = round(time.time() - t0, 1)
        shutil.rmtree(scratch, ignore_errors=True)


def main():
    ap = argparse.ArgumentParser()
    ap.add_argument('--files', default=','.join(FILE_PROPS))
    ap.add_argument('--per-file', type=int, default=30)
    ap.add_argument('--jobs', type=int, default=3)
    ap.add_argument('--workers', type=int, default=4)
    ap.add_argument('--seed', type=int, default=0)
    ap.add_argument('--list', action='store_true')
    a = ap.parse_args()
    outdir = os.path.join(VERIF, 'out', 'automut')
    os.makedirs(outdir, exist_ok=True)
    jobs = []
    for fname in a.files.split(','):
        src = open(os.path.join('/repo', 'fggs', fname)).read()
        cands = candidates(src)
        # one mutant per (line, kind) at most, then sample
        seen, uniq = set(), []
        for c in cands:
            k = (c[1], c[0], c[2])
            if k not in seen:
                seen.add(k)
                uniq.append(c)
        rng = random.Random(f'{a.seed}:{fname}')
        rng.shuffle(uniq)
        pick = uniq[:a.per_file]
        print(f'{fname}: {len(uniq)} candidate mutations, running {len(pick)}', flush=True)
        if a.list:
            for c in pick:
                print('   ', c[0], c[1], c[5][:100])
            continue
        for i, c in enumerate(pick):
            jobs.append((fname, c, i))
    if a.list:
        return 0
    counts = {}
    with ThreadPoolExecutor(a.jobs) as ex:
        for rec in ex.map(lambda j: run_one(j[0], j[1], j[2], workers=a.workers), jobs):
            counts[rec['status']] = counts.get(rec['status'], 0) + 1
            with open(os.path.join(outdir, f"{rec['file']}.seed{a.seed}.jsonl"), 'a') as f:
                f.write(json.dumps(rec) + '\n')
            print(f"{rec['status']:22s} {rec['file']}:{rec['line']} {rec['kind']:16s} by={rec.get('by', '-')} {rec.get('wall')}s  {rec.get('original', '')[:70]!r} -> {rec.get('mutated', '')[:70]!r}", flush=True)
    print('summary', counts)
    return 0


if __name__ == '__main__':
    sys.exit(main())
