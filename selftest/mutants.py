"""Property-breaking edits used to validate the monitors (applied to a scratch copy only).
Each: id, property (or list), file, old, new, expect ('fire' default | 'silent')."""

MUTANTS = [
    # ---- C01
    dict(id='c01-drop-neginf', property='C01', file='fggs/indices.py',
         old='self.physical.nan_to_num_(nan=nan, posinf=posinf, neginf=neginf)', new='self.physical.nan_to_num_(nan=nan, posinf=posinf)'),
    dict(id='c01-skip-disconnected-internal', property='C01', file='fggs/sum_product.py',
         old='    if multiplier != 1:\n        return semiring.mul', new='    if False and multiplier != 1:\n        return semiring.mul'),
    dict(id='c01-no-restore-ext', property='C01', file='fggs/sum_product.py',
         old="    if out.ndim < len(ext):\n        eshape = fgg.shape(ext)\n        vshape = [s if n in connected else 1 for n, s in zip(ext, eshape)]\n        out = out.view(*vshape).expand(*eshape)\n\n    out = multiply_in",
         new="    if out.ndim < len(ext):\n        eshape = fgg.shape(ext)\n        vshape = [s if n in connected else 1 for n, s in zip(ext, eshape)]\n        out = out.view(*vshape).expand(*eshape).mul(1)\n        out = out.add(out) if len(eshape) > 1 else out\n\n    out = multiply_in"),
    dict(id='c01-real-einsum-no-nan_to_num', property='C01', file='fggs/semirings.py',
         old="            a.mul_(b)\n            torch.nan_to_num(a, nan=0., posinf=inf, out=a)", new="            a.mul_(b)"),
    # ---- C08
    dict(id='c08-viterbi-star-ge', property='C08', file='fggs/semirings.py', old='torch.where(x > 0, inf, 0.)', new='torch.where(x >= 0, inf, 0.)'),
    dict(id='c08-real-star-gt-equivalent', property='C08', file='fggs/semirings.py', old='y.masked_fill_(x >= 1, inf)', new='y.masked_fill_(x > 1, inf)', expect='silent'),   # 1/(1-1) is inf anyway
    dict(id='c08-real-star-no-mask', property='C08', file='fggs/semirings.py', old='y.masked_fill_(x >= 1, inf)', new='y.masked_fill_(x >= 2, inf)'),
    dict(id='c08-log-mul-no-nan', property='C08', file='fggs/semirings.py',
         old="class LogSemiring(Semiring):", new="class LogSemiring(Semiring):\n    pass\n", expect='silent'),
    dict(id='c08-log-sub-forget-neg', property='C08', file='fggs/semirings.py', old='d.expm1().neg_().log_()', new='d.expm1().log_()'),
    dict(id='c08-real-sub-nan-one', property='C08', file='fggs/semirings.py', old='return x.sub(y).relu_().nan_to_num_(nan=0., posinf=inf)', new='return x.sub(y).nan_to_num_(nan=1., posinf=inf)', expect='silent'),
    dict(id='c08-bool-from-int', property='C08', file='fggs/semirings.py', old='        return n > 0\n', new='        return n > 1\n'),
    # ---- C10
    dict(id='c10-acb-early-return', property='C10', file='fggs/factorize.py',
         old="            comptrees.append((frozenset(c.keys()), []))\n            continue", new="            unrooted = {}\n            add_node(unrooted, frozenset(c.keys()))\n            return unrooted"),
    dict(id='c10-minfill-maxdeg', property='C10', file='fggs/factorize.py', old='        dmax = max(dmax, len(graph[u]))\n        eliminate_node(graph, u)\n        order.append(u)\n    return dmax, order',
         new='        eliminate_node(graph, u)\n        dmax = max(dmax, len(graph.get(u, ())))\n        order.append(u)\n    return dmax, order'),
    dict(id='c10-quickbb-prune', property='C10', file='fggs/factorize.py', old='                if f1 < best_ub:\n                    bb(graph1, order1, sep1, f1, g1)', new='                if f1 + 1 < best_ub:\n                    bb(graph1, order1, sep1, f1, g1)'),
    # ---- C19
    dict(id='c19-lowlink-cross-edge', property='C19', file='fggs/utils.py', old='            elif w in onstack:\n                lowlink[v] = min(lowlink[v], indexof[w])', new='            else:\n                lowlink[v] = min(lowlink[v], indexof[w])'),
    dict(id='c19-reverse-order', property='C19', file='fggs/utils.py', old='    return comps\n', new='    return comps[::-1]\n'),
    dict(id='c19-ntgraph-skip-ruleless', property='C19', file='fggs/utils.py', old='{x:dict() for x in hrg.nonterminals()}', new='{x:dict() for x in hrg.nonterminals() if hrg.rules(x) or x == hrg.start}'),
    # ---- C20
    dict(id='c20-rebind', property='C20', file='fggs/fggs.py', old='        if el.name in self.factors:', new='        if el in self.factors:'),
    dict(id='c20-arity-lax', property='C20', file='fggs/fggs.py', old='        if fac.arity != el.arity:', new='        if fac.arity < el.arity:'),
    dict(id='c20-shape-numel', property='C20', file='fggs/factors.py', old='        if weights.shape != size:', new='        if weights.shape.numel() != size.numel():'),
    dict(id='c20-range-contains', property='C20', file='fggs/domains.py', old='        return 0 <= value < self._size', new='        return 0 <= value <= self._size'),
    # ---- C06
    dict(id='c06-abs_-default', property='C06', file='fggs/indices.py', old='        self.default = abs(self.default)\n        self.physical.abs_()', new='        self.physical.abs_()'),
    dict(id='c06-clone-shares-storage', property='C06', file='fggs/indices.py', old='        return PatternedTensor(self.physical.clone(),\n                               tuple(k.freshen(rename) for k in self.paxes),', new='        return PatternedTensor(self.physical,\n                               tuple(k.freshen(rename) for k in self.paxes),'),
    dict(id='c06-where-no-freshen', property='C06', file='fggs/indices.py', old='        if not t.isdisjoint(c): t = t.freshen()\n', new=''),
    dict(id='c06-sumaxis-index-after', property='C06', file='fggs/indices.py', old='        return 0 <= i < n and self.term.index(physical, i)', new='        return 0 <= i <= n and self.term.index(physical, min(i, n - 1))'),
    dict(id='c06-unsqueeze-negdim', property='C06', file='fggs/indices.py', old='        if dim < 0: dim += self.ndim + 1\n        vaxes = list(self.vaxes)\n        vaxes.insert(dim, unitAxis)', new='        if dim < 0: dim += self.ndim\n        vaxes = list(self.vaxes)\n        vaxes.insert(dim, unitAxis)'),
    dict(id='c06-logsoftmax-default', property='C06', file='fggs/indices.py', old='self.paxes, self.vaxes, -log(k._numel))', new='self.paxes, self.vaxes, 0.)'),
    dict(id='c06-sub-default', property='C06', file='fggs/indices.py', old='            default = self.default - other.default\n            if self.default != 0 or', new='            default = self.default + other.default\n            if self.default != 0 or'),
    dict(id='c06-commutative-branch', property='C06', file='fggs/indices.py', old='           len(paxes2) == len(u.paxes) and t.physical.numel() >= u.physical.numel():\n            td = PatternedTensor(tp, paxes1, es, t.default).to_dense()\n            if u.default == identity:',
         new='           len(paxes2) == len(u.paxes) and t.physical.numel() >= u.physical.numel():\n            td = PatternedTensor(tp, paxes1, es, t.default).to_dense()\n            if u.default == identity or u.default == 0:'),
    dict(id='c06-productaxis-stride', property='C06', file='fggs/indices.py', old='            if offset or stride:\n                n = e.numel()', new='            if stride:\n                n = e.numel()'),
    dict(id='c06-post-init-keeps-size1', property='C06', file='fggs/indices.py', old="            subst = {k:unitAxis for k in self.paxes if k._numel == 1}\n            if subst:", new="            subst = {k:unitAxis for k in self.paxes if k._numel == 1}\n            if False and subst:"),
    dict(id='c06-copy_-alias', property='C06', file='fggs/indices.py', old='                self.physical = src.physical.clone()\n        else:\n            self.physical = src.physical.clone()', new='                self.physical = src.physical.clone()\n        else:\n            self.physical = src.physical'),
    dict(id='c06-to_dense-fastpath-reorder', property='C06', file='fggs/indices.py', old='    return (virtual.as_strided(tuple(k._numel  for k in paxes),', new='    return (virtual.as_strided(tuple(k._numel  for k in paxes),', expect='silent'),
    # ---- C07
    dict(id='c07-einsum-no-default_to', property='C07', file='fggs/indices.py', old="    #print(depict_einsum('einsum', tensors, inputs, output), file=stderr)\n    tensors = [tensor.default_to(zero.item()) for tensor in tensors]", new="    #print(depict_einsum('einsum', tensors, inputs, output), file=stderr)\n    tensors = list(tensors)"),
    dict(id='c07-log-einsum-no-nan_to_num', property='C07', file='fggs/semirings.py', old="            a.add_(b)\n            torch.nan_to_num(a, nan=-inf, posinf=inf, neginf=-inf, out=a)\n        def callback(compute_sum):\n            u = torch_semiring_einsum.utils", new="            a.add_(b)\n        def callback(compute_sum):\n            u = torch_semiring_einsum.utils"),
    dict(id='c07-viterbi-pointer-stride', property='C07', file='fggs/indices.py', old='        for k, alpha in s.items(): p = p.add(paxis_to_ptr[k], alpha=alpha)', new='        for k, alpha in s.items(): p = p.add(paxis_to_ptr[k])'),
    dict(id='c07-viterbi-pointer-offset', property='C07', file='fggs/indices.py', old='        p = ptr.new_tensor(o, dtype=torch.long).expand(out.size())', new='        p = ptr.new_tensor(0, dtype=torch.long).expand(out.size())'),
    dict(id='c07-unify-failure-not-zero', property='C07', file='fggs/indices.py', old="                if not index_to_vaxis[index].unify(vaxis, subst):\n                    result_is_zero = True\n            else:\n                index_to_vaxis[index] = vaxis\n    output_vaxes = tuple(index_to_vaxis[index].clone(subst) for index in output)",
         new="                if not index_to_vaxis[index].unify(vaxis, subst):\n                    result_is_zero = False\n            else:\n                index_to_vaxis[index] = vaxis\n    output_vaxes = tuple(index_to_vaxis[index].clone(subst) for index in output)"),
    dict(id='c07-bool-einsum-ge', property='C07', file='fggs/semirings.py', old='block_size=torch_semiring_einsum.AUTOMATIC_BLOCK_SIZE) > 0', new='block_size=torch_semiring_einsum.AUTOMATIC_BLOCK_SIZE) > 1'),
    dict(id='c07-post-einsum-order', property=['C07', 'C01'], file='fggs/equation.py', old="    unsqueeze_index = sorted([compiled_equation.output_variables.index(v)\n                              for v in removed_vars])", new="    unsqueeze_index = [compiled_equation.output_variables.index(v)\n                              for v in sorted(removed_vars)]"),
    # ---- C13
    dict(id='c13-equal-no-freshen', property='C13', file='fggs/indices.py', old="        n = s.numel()\n        if not self.isdisjoint(other): other = other.freshen()\n        selfok  = self.physical == other.default", new="        n = s.numel()\n        selfok  = self.physical == other.default"),
    dict(id='c13-equal-count-lt', property='C13', file='fggs/indices.py', old="        return (n <= selfok.numel() + otherok.numel() or\n                self.default == other.default) and \\\n               bool(selfok.all()) and bool(otherok.all())",
         new="        return (n < selfok.numel() + otherok.numel() or\n                self.default == other.default) and \\\n               bool(selfok.all()) and bool(otherok.all())"),
    dict(id='c13-equal-ignore-defaults', property='C13', file='fggs/indices.py', old="        return (n <= selfok.numel() + otherok.numel() or\n                self.default == other.default) and \\\n               bool(selfok.all()) and bool(otherok.all())",
         new="        return bool(selfok.all()) and bool(otherok.all())"),
    dict(id='c13-allclose-otherok-swapped', property='C13', file='fggs/indices.py', old="        otherok = self.physical.new_tensor(self.default).isclose(other.physical, rtol=rtol, atol=atol, equal_nan=equal_nan)", new="        otherok = other.physical.isclose(self.physical.new_tensor(self.default), rtol=rtol, atol=atol, equal_nan=equal_nan)"),
    dict(id='c13-multi-absent-skip', property='C13', file='fggs/multi.py', old="            for k, t in other.items():\n                if k not in self:\n                    assert(t.default == self.semiring.from_int(0).item())\n                    if not t.allclose_default(atol=tol, rtol=0.): return False\n        return True",
         new="        return True"),
    dict(id='c13-equal-shape-check', property='C13', file='fggs/indices.py', old="        s = self.size()\n        if s != other.size(): return False\n        n = s.numel()\n        if not self.isdisjoint(other): other = other.freshen()\n        selfok  = self.physical == other.default", new="        s = self.size()\n        if s.numel() != other.size().numel(): return False\n        n = s.numel()\n        if not self.isdisjoint(other): other = other.freshen()\n        selfok  = self.physical == other.default"),
    # ---- C09
    dict(id='c09-multi-solve-no-transpose', property='C09', file='fggs/multi.py', old="        if transpose: \n            a_flat[y, x] = t.T", new="        if transpose and False: \n            a_flat[y, x] = t.T"),
    dict(id='c09-multi-solve-noclone', property='C09', file='fggs/multi.py', old="        t = t.clone().reshape(flat_shapes[x]+flat_shapes[y])", new="        t = t.reshape(flat_shapes[x]+flat_shapes[y])"),
    dict(id='c09-backsubst-skip', property='C09', file='fggs/multi.py', old="            for x in reversed(order[:k]):\n                if (x,z) in a:\n                    b.add_single(x, a[x,z].mv(b[z], semiring))", new="            for x in reversed(order[:k-1] if k else []):\n                if (x,z) in a:\n                    b.add_single(x, a[x,z].mv(b[z], semiring))"),
    dict(id='c09-gauss-jordan-star-skip', property='C09', file='fggs/semirings.py', old="            a[:,k] = self.mul(a[:,k], self.star(a[k,k]))", new="            a[:,k] = self.mul(a[:,k], self.star(a[k,k]) if k else self.from_int(1))"),
    dict(id='c09-real-accept-negative', property='C09', file='fggs/semirings.py', old="                if torch.all(x >= 0.):\n                    return x", new="                return x"),
    dict(id='c09-multi-mv-transpose', property='C09', file='fggs/multi.py', old="                c.add_single(y, axy.T.mv(bx, semiring).reshape(jshapes[y]))", new="                c.add_single(y, axy.mv(bx, semiring).reshape(jshapes[y])) if ishapes[x] == jshapes[y] else c.add_single(y, axy.T.mv(bx, semiring).reshape(jshapes[y]))"),
    dict(id='c09-order-reversed-must-not-fire', property='C09', file='fggs/multi.py', old="    return linking_nonterminals + list(nonlinking_nonterminals)", new="    return list(reversed(linking_nonterminals + list(nonlinking_nonterminals)))", expect='silent'),
    dict(id='c09-solve-return-b-alias', property='C09', file='fggs/indices.py', old="                return b.clone() # a*b = 0, so x = b", new="                raise AssertionError"),
    # ---- C11
    dict(id='c11-assert-computes', property='C11', file='fggs/sum_product.py', old="    out = multiply_in_disconnected_internals(out, nodes, connected, ext, semiring, fgg)\n\n    assert(out.physical.dtype == semiring.dtype)\n    return out",
         new="    old = out\n    assert (out := multiply_in_disconnected_internals(out, nodes, connected, ext, semiring, fgg)) is not None\n\n    assert(out.physical.dtype == semiring.dtype)\n    return out"),
    dict(id='c11-debug-guards-squeeze', property='C11', file='fggs/indices.py', old="            subst = {k:unitAxis for k in self.paxes if k._numel == 1}\n            if subst:", new="            subst = {k:unitAxis for k in self.paxes if k._numel == 1} if __debug__ else {}\n            if subst:", expect='silent'),   # breaks a representation invariant under -O only, answers unchanged
    dict(id='c11-downgrade-to-linear-too-eager', property='C11', file='fggs/sum_product.py', old="        elif max_rhs == 1 and opts['method'] == 'newton':", new="        elif max_rhs <= 2 and opts['method'] == 'newton':"),
    dict(id='c11-float32-tol-path', property='C11', file='fggs/multi.py', old="                    if not t.allclose(other[k], atol=tol, rtol=0.): return False", new="                    if not t.allclose(other[k], atol=tol if t.dtype == torch.float64 else 1e-2, rtol=0.): return False"),
    dict(id='c11-newton-no-clamp-must-not-fire', property='C11', file='fggs/sum_product.py', old="        x0 += dX\n        x0.maximum_(F0)", new="        x0 += dX", expect='silent'),
    dict(id='c11-log-add-is-max', property='C11', file='fggs/semirings.py', old="    @staticmethod\n    def add(x: TensorLikeT, y: TensorLikeT) -> TensorLikeT:\n        return x.logaddexp(y)", new="    @staticmethod\n    def add(x: TensorLikeT, y: TensorLikeT) -> TensorLikeT:\n        return x.maximum(y)"),
    # ---- C16
    dict(id='c16-copy-shares-nodes-dict', property='C16', file='fggs/fggs.py', old='        copy._nodes = dict(self._nodes)', new='        copy._nodes = self._nodes'),
    dict(id='c16-remove-node-no-ext-guard', property='C16', file='fggs/fggs.py', old="        if node in self.ext:\n            raise ValueError", new="        if False and node in self.ext:\n            raise ValueError"),
    dict(id='c16-eq-ignores-ext', property='C16', file='fggs/fggs.py', old='                self._edges == other._edges and\n                self._ext == other._ext)', new='                self._edges == other._edges)'),
    dict(id='c16-add-edge-no-node-check', property='C16', file='fggs/fggs.py', old='        self._check_new_nodes(edge.nodes)\n', new=''),
]
