"""Self-test of the monitors: apply small property-breaking edits ("mutants") to a scratch copy of
/repo (outside /repo and /verif), run the property's quick check against the copy (RV_REPO), and
expect exit 1 with a VIOLATION line -- or exit 0 for the "must not fire" edits.

    ./rv selftest [--only C07[,C08]] [--ids m1,m2] [--with-tests] [--jobs 3]
"""
import argparse, json, os, shutil, subprocess, sys, tempfile, time
from concurrent.futures import ThreadPoolExecutor

HERE = os.path.dirname(os.path.abspath(__file__))
VERIF = os.path.dirname(HERE)


def load():
    from . import mutants
    return mutants.MUTANTS


def run_one(m, with_tests=False, tier='quick'):
    scratch = tempfile.mkdtemp(prefix='rv_mut_', dir='/tmp')
    try:
        dst = os.path.join(scratch, 'repo')
        shutil.copytree('/repo', dst, ignore=shutil.ignore_patterns('.git', '__pycache__', '*.egg-info', 'examples', 'images', 'docs'))
        edits = [(m['file'], m['old'], m['new'], m.get('count', 1))] + [(e[0], e[1], e[2], 1) for e in m.get('more', [])]
        for fname, old, new_, cnt in edits:
            path = os.path.join(dst, fname)
            src = open(path).read()
            if src.count(old) < 1:
                return dict(id=m['id'], status='STALE', detail='pattern not found')
            src = src.replace(old, new_, cnt)
            open(path, 'w').write(src)
        tests_ok = None
        if with_tests:
            r = subprocess.run(['/venv/bin/python', '-m', 'pytest', '-q', '-x', '-p', 'no:cacheprovider', '-n', '4'], cwd=dst,
                               capture_output=True, text=True, timeout=1200)
            tests_ok = r.returncode == 0
        env = dict(os.environ, RV_REPO=dst)
        res = {}
        for pid in m['property'] if isinstance(m['property'], list) else [m['property']]:
            t0 = time.time()
            r = subprocess.run([os.path.join(VERIF, 'rv'), 'check', pid, '--tier', tier], cwd=VERIF, env=env, capture_output=True, text=True, timeout=3600)
            fired = r.returncode == 1 and 'VIOLATION property=' + pid in r.stdout
            mech = [l.strip() for l in r.stdout.splitlines() if l.strip().startswith('mechanism=')][:2]
            res[pid] = dict(rc=r.returncode, fired=fired, wall=round(time.time() - t0, 1), mech=mech,
                            tail=r.stdout.strip().splitlines()[-1][:200] if r.stdout.strip() else r.stderr[-300:])
        expect_fire = m.get('expect', 'fire') == 'fire'
        ok = all((v['fired'] if expect_fire else v['rc'] == 0) for v in res.values())
        return dict(id=m['id'], status='OK' if ok else 'MISSED' if expect_fire else 'FALSE-ALARM', expect=m.get('expect', 'fire'),
                    tests_pass=tests_ok, results=res)
    finally:
        shutil.rmtree(scratch, ignore_errors=True)


def main():
    ap = argparse.ArgumentParser()
    ap.add_argument('--only', default='')
    ap.add_argument('--ids', default='')
    ap.add_argument('--with-tests', action='store_true')
    ap.add_argument('--jobs', type=int, default=2)
    ap.add_argument('--tier', default='quick')
    a = ap.parse_args()
    ms = load()
    if a.only:
        want = set(a.only.split(','))
        ms = [m for m in ms if (set(m['property']) if isinstance(m['property'], list) else {m['property']}) & want]
    if a.ids:
        want = set(a.ids.split(','))
        ms = [m for m in ms if m['id'] in want]
    bad = 0
    out = []
    with ThreadPoolExecutor(a.jobs) as ex:
        for r in ex.map(lambda m: run_one(m, a.with_tests, a.tier), ms):
            out.append(r)
            line = f"{r['status']:11s} {r['id']:40s} " + ' '.join(f"{p}:rc={v['rc']} {v['wall']}s {v['mech'][:1]}" for p, v in r.get('results', {}).items())
            if r.get('tests_pass') is not None:
                line += f" tests_pass={r['tests_pass']}"
            print(line[:400], flush=True)
            if r['status'] != 'OK':
                bad += 1
    os.makedirs(os.path.join(VERIF, 'out'), exist_ok=True)
    json.dump(out, open(os.path.join(VERIF, 'out', 'selftest.json'), 'w'), indent=1)
    print(f'{len(out) - bad}/{len(out)} mutants judged as expected')
    return 1 if bad else 0


if __name__ == '__main__':
    sys.exit(main())
