"""Seeded property-breaking changes written by independent sub-agents (/verif/seeded/<id>/).

    python -m selftest.seeded ingest <dir containing _seeded/*> <PROPERTY>   verify + import + run check
    python -m selftest.seeded run [--only C07] [--tier quick] [--ids a,b]    run the checks against every kept change

Every run uses a scratch git worktree of /repo under /tmp (removed afterwards); /repo itself is never modified.
"""
import argparse, json, os, shutil, subprocess, sys, time

VERIF = os.path.dirname(os.path.dirname(os.path.abspath(__file__)))
SEEDED = os.path.join(VERIF, 'seeded')
PY = '/venv/bin/python'


def sh(cmd, **kw):
    return subprocess.run(cmd, capture_output=True, text=True, **kw)


class Scratch:
    def __init__(self, tag):
        self.path = f'/tmp/sv_{tag}_{os.getpid()}'

    def __enter__(self):
        sh(['git', '-C', '/repo', 'worktree', 'remove', '--force', self.path])
        r = sh(['git', '-C', '/repo', 'worktree', 'add', '--detach', self.path, 'HEAD'])
        if r.returncode:
            raise RuntimeError(r.stderr)
        return self.path

    def __exit__(self, *a):
        sh(['git', '-C', '/repo', 'worktree', 'remove', '--force', self.path])
        shutil.rmtree(self.path, ignore_errors=True)
        sh(['git', '-C', '/repo', 'worktree', 'prune'])


def run_check(repo, pid, tier='quick', seed=None):
    env = dict(os.environ, RV_REPO=repo)
    if seed is not None:
        env['VERIF_SEED'] = str(seed)
    t0 = time.time()
    r = sh([os.path.join(VERIF, 'rv'), 'check', pid, '--tier', tier], cwd=VERIF, env=env, timeout=7200)
    mech = [l.strip()[:260] for l in r.stdout.splitlines() if l.strip().startswith('mechanism=')][:3]
    return dict(rc=r.returncode, fired=(r.returncode == 1 and f'VIOLATION property={pid}' in r.stdout), mech=mech,
                wall=round(time.time() - t0, 1), tail=(r.stdout.strip().splitlines() or [''])[-1][:300])


def verify(srcdir, with_tests=True):
    """returns dict with applies/tests_pass/demo results for a seeded dir (patch.diff, demo.py)"""
    out = {}
    tag = os.path.basename(srcdir.rstrip('/'))
    with Scratch(tag) as wt:
        r = sh(['git', '-C', wt, 'apply', os.path.join(srcdir, 'patch.diff')])
        out['applies'] = r.returncode == 0
        if not out['applies']:
            out['apply_err'] = r.stderr[-400:]
            return out, None
        if with_tests:
            r = sh([PY, '-m', 'pytest', '-q', '-p', 'no:cacheprovider', '-n', '6', '-x'], cwd=wt, env=dict(os.environ, PYTHONPATH=wt), timeout=1800)
            out['tests_pass'] = r.returncode == 0
            out['tests_tail'] = (r.stdout.strip().splitlines() or [''])[-1][:200]
        r = sh([PY, os.path.join(srcdir, 'demo.py')], env=dict(os.environ, FGGS_PATH=wt, PYTHONPATH=wt), timeout=900)
        out['demo_with_patch_rc'] = r.returncode
        r2 = sh([PY, os.path.join(srcdir, 'demo.py')], env=dict(os.environ, FGGS_PATH='/repo', PYTHONPATH='/repo'), timeout=900)
        out['demo_without_patch_rc'] = r2.returncode
        return out, wt


def ingest(srcroot, pid, tier='quick'):
    root = os.path.join(srcroot, '_seeded')
    for name in sorted(os.listdir(root)):
        src = os.path.join(root, name)
        if not os.path.exists(os.path.join(src, 'patch.diff')):
            continue
        res, _ = verify(src)
        ok = res.get('applies') and res.get('tests_pass') and res.get('demo_with_patch_rc') == 1 and res.get('demo_without_patch_rc') == 0
        print(f'{pid} {name}: verified={bool(ok)} {res}')
        if not ok:
            continue
        dst = os.path.join(SEEDED, f'{pid}-{name}')
        os.makedirs(dst, exist_ok=True)
        for f in ('patch.diff', 'demo.py'):
            shutil.copy(os.path.join(src, f), os.path.join(dst, f))
        meta = {}
        try:
            meta = json.load(open(os.path.join(src, 'meta.json')))
        except Exception:
            pass
        meta.update(property=pid, verified_by_us=dict(res, how='scratch worktree of /repo HEAD: git apply; pytest -n 6 (all pass); demo.py exit 1 with patch, exit 0 on /repo'),
                    repo_head=sh(['git', '-C', '/repo', 'rev-parse', '--short', 'HEAD']).stdout.strip())
        json.dump(meta, open(os.path.join(dst, 'meta.json'), 'w'), indent=1)
        run_one(f'{pid}-{name}', tier)


def run_one(sid, tier='quick', props=None, seed=None):
    d = os.path.join(SEEDED, sid)
    meta = json.load(open(os.path.join(d, 'meta.json')))
    props = props or [meta['property']]
    with Scratch(sid) as wt:
        r = sh(['git', '-C', wt, 'apply', os.path.join(d, 'patch.diff')])
        if r.returncode:
            print(f'{sid}: STALE patch does not apply: {r.stderr[-200:]}')
            return None
        out = {}
        for pid in props:
            out[pid] = run_check(wt, pid, tier, seed)
            print(f"{'CAUGHT' if out[pid]['fired'] else 'MISSED'} {sid} by {pid} [{tier}] rc={out[pid]['rc']} {out[pid]['wall']}s {out[pid]['mech'][:1]}", flush=True)
        if not any(v['fired'] for v in out.values()) and os.path.exists(os.path.join(d, 'demo.py')):
            # a later repair of the repository can neutralise an old seeded change: its own demo then passes with the patch
            r2 = sh(['/venv/bin/python', '-B', os.path.join(d, 'demo.py')], env=dict(os.environ, FGGS_PATH=wt))
            if r2.returncode == 0:
                meta['neutralised_on_current_tree'] = True
                print(f'NEUTRALISED {sid}: its own demo passes with the patch applied to the current tree (a later fix removed the trigger)', flush=True)
            else:
                meta.pop('neutralised_on_current_tree', None)
    meta.setdefault('detection', {})
    for pid, v in out.items():
        meta['detection'][f'{pid}:{tier}'] = dict(fired=v['fired'], rc=v['rc'], mechanisms=v['mech'])
    json.dump(meta, open(os.path.join(d, 'meta.json'), 'w'), indent=1)
    return out


def main():
    ap = argparse.ArgumentParser()
    ap.add_argument('cmd')
    ap.add_argument('args', nargs='*')
    ap.add_argument('--only', default='')
    ap.add_argument('--ids', default='')
    ap.add_argument('--tier', default='quick')
    ap.add_argument('--props', default='')
    ap.add_argument('--seed', default=None)
    a = ap.parse_args()
    if a.cmd == 'ingest':
        ingest(a.args[0], a.args[1], a.tier)
    elif a.cmd == 'run':
        ids = sorted(os.listdir(SEEDED)) if os.path.isdir(SEEDED) else []
        if a.only:
            ids = [i for i in ids if i.split('-')[0] in a.only.split(',')]
        if a.ids:
            ids = [i for i in ids if i in a.ids.split(',')]
        missed = 0
        for i in ids:
            if not os.path.exists(os.path.join(SEEDED, i, 'meta.json')):
                continue
            out = run_one(i, a.tier, a.props.split(',') if a.props else None, a.seed)
            if out and not any(v['fired'] for v in out.values()):
                missed += 1
        print(f'{len(ids) - missed}/{len(ids)} seeded changes caught')


if __name__ == '__main__':
    main()
